open Api
open Ascii
open BinNat
open BinNums
open Builders
open Byte
open Cbor
open Context
open Cwt
open Datatypes
open Desc
open Generated
open HexString
open Iana
open Key
open Label
open Msg
open Nat
open Prelude
open String

type __ = Obj.t

(** val b2s : bytes -> string **)

let b2s =
  string_of_list_byte

type ty_ops = { fromv : (value -> __ res); tov : (__ -> value res);
                dsc : (__ -> value); odsc : (value -> __ res);
                tagn : coq_N option }

type carrier = __

(** val ok_value : value -> value res **)

let ok_value v =
  Ok v

(** val tags : string -> coq_N option **)

let tags ty =
  Some (tag_of ty)

(** val reg_ty : string -> ty_ops **)

let reg_ty reg =
  { fromv = (Obj.magic reg_from_value (table_of reg)); tov = (fun l -> Ok
    (reg_to_value (Obj.magic l))); dsc = (Obj.magic d_reg); odsc =
    (Obj.magic o_reg); tagn = None }

(** val regp_ty : string -> ty_ops **)

let regp_ty reg =
  { fromv = (Obj.magic regp_from_value reg); tov = (fun l -> Ok
    (regp_to_value (Obj.magic l))); dsc = (Obj.magic d_regp); odsc =
    (Obj.magic o_regp); tagn = None }

(** val prefix_split : string -> string -> string option **)

let prefix_split p s =
  if prefix p s
  then Some (substring (length p) (sub (length s) (length p)) s)
  else None

(** val lookup_ty : string -> ty_ops option **)

let lookup_ty ty =
  if eqb ty (String ((Ascii (false, true, true, false, true, false, true,
       false)), (String ((Ascii (true, false, false, false, false, true,
       true, false)), (String ((Ascii (false, false, true, true, false, true,
       true, false)), (String ((Ascii (true, false, true, false, true, true,
       true, false)), (String ((Ascii (true, false, true, false, false, true,
       true, false)), EmptyString))))))))))
  then Some { fromv = (Obj.magic ok_value); tov = (Obj.magic ok_value); dsc =
         (fun v -> Obj.magic v); odsc = (Obj.magic ok_value); tagn = None }
  else if eqb ty (String ((Ascii (false, false, true, true, false, false,
            true, false)), (String ((Ascii (true, false, false, false, false,
            true, true, false)), (String ((Ascii (false, true, false, false,
            false, true, true, false)), (String ((Ascii (true, false, true,
            false, false, true, true, false)), (String ((Ascii (false, false,
            true, true, false, true, true, false)), EmptyString))))))))))
       then Some { fromv = (Obj.magic label_from_value); tov =
              (Obj.magic coq_Label_to_value); dsc = (Obj.magic d_label);
              odsc = (Obj.magic o_label); tagn = None }
       else if eqb ty (String ((Ascii (false, false, false, true, false,
                 false, true, false)), (String ((Ascii (true, false, true,
                 false, false, true, true, false)), (String ((Ascii (true,
                 false, false, false, false, true, true, false)), (String
                 ((Ascii (false, false, true, false, false, true, true,
                 false)), (String ((Ascii (true, false, true, false, false,
                 true, true, false)), (String ((Ascii (false, true, false,
                 false, true, true, true, false)), EmptyString))))))))))))
            then Some { fromv = (Obj.magic coq_Header_from_value); tov =
                   (Obj.magic header_to_value); dsc = (Obj.magic d_header);
                   odsc = (Obj.magic o_header); tagn = None }
            else if eqb ty (String ((Ascii (false, false, false, false, true,
                      false, true, false)), (String ((Ascii (false, true,
                      false, false, true, true, true, false)), (String
                      ((Ascii (true, true, true, true, false, true, true,
                      false)), (String ((Ascii (false, false, true, false,
                      true, true, true, false)), (String ((Ascii (true,
                      false, true, false, false, true, true, false)), (String
                      ((Ascii (true, true, false, false, false, true, true,
                      false)), (String ((Ascii (false, false, true, false,
                      true, true, true, false)), (String ((Ascii (true,
                      false, true, false, false, true, true, false)), (String
                      ((Ascii (false, false, true, false, false, true, true,
                      false)), (String ((Ascii (false, false, false, true,
                      false, false, true, false)), (String ((Ascii (true,
                      false, true, false, false, true, true, false)), (String
                      ((Ascii (true, false, false, false, false, true, true,
                      false)), (String ((Ascii (false, false, true, false,
                      false, true, true, false)), (String ((Ascii (true,
                      false, true, false, false, true, true, false)), (String
                      ((Ascii (false, true, false, false, true, true, true,
                      false)), EmptyString))))))))))))))))))))))))))))))
                 then Some { fromv =
                        (Obj.magic coq_ProtectedHeader_from_value); tov =
                        (Obj.magic protected_to_value); dsc =
                        (Obj.magic d_protected); odsc =
                        (Obj.magic o_protected); tagn = None }
                 else if eqb ty (String ((Ascii (true, true, false, false,
                           false, false, true, false)), (String ((Ascii
                           (true, true, true, true, false, true, true,
                           false)), (String ((Ascii (true, true, false,
                           false, true, true, true, false)), (String ((Ascii
                           (true, false, true, false, false, true, true,
                           false)), (String ((Ascii (true, true, false,
                           false, true, false, true, false)), (String ((Ascii
                           (true, false, false, true, false, true, true,
                           false)), (String ((Ascii (true, true, true, false,
                           false, true, true, false)), (String ((Ascii
                           (false, true, true, true, false, true, true,
                           false)), (String ((Ascii (true, false, false,
                           false, false, true, true, false)), (String ((Ascii
                           (false, false, true, false, true, true, true,
                           false)), (String ((Ascii (true, false, true,
                           false, true, true, true, false)), (String ((Ascii
                           (false, true, false, false, true, true, true,
                           false)), (String ((Ascii (true, false, true,
                           false, false, true, true, false)),
                           EmptyString))))))))))))))))))))))))))
                      then Some { fromv =
                             (Obj.magic coq_CoseSignature_from_value); tov =
                             (Obj.magic signature_to_value); dsc =
                             (Obj.magic d_signature); odsc =
                             (Obj.magic o_signature); tagn = None }
                      else if eqb ty (String ((Ascii (true, true, false,
                                false, false, false, true, false)), (String
                                ((Ascii (true, true, true, true, false, true,
                                true, false)), (String ((Ascii (true, true,
                                false, false, true, true, true, false)),
                                (String ((Ascii (true, false, true, false,
                                false, true, true, false)), (String ((Ascii
                                (true, true, false, false, true, false, true,
                                false)), (String ((Ascii (true, false, false,
                                true, false, true, true, false)), (String
                                ((Ascii (true, true, true, false, false,
                                true, true, false)), (String ((Ascii (false,
                                true, true, true, false, true, true, false)),
                                EmptyString))))))))))))))))
                           then Some { fromv =
                                  (Obj.magic coq_CoseSign_from_value); tov =
                                  (Obj.magic coq_CoseSign_to_value); dsc =
                                  (Obj.magic d_sign); odsc =
                                  (Obj.magic o_sign); tagn = (tags ty) }
                           else if eqb ty (String ((Ascii (true, true, false,
                                     false, false, false, true, false)),
                                     (String ((Ascii (true, true, true, true,
                                     false, true, true, false)), (String
                                     ((Ascii (true, true, false, false, true,
                                     true, true, false)), (String ((Ascii
                                     (true, false, true, false, false, true,
                                     true, false)), (String ((Ascii (true,
                                     true, false, false, true, false, true,
                                     false)), (String ((Ascii (true, false,
                                     false, true, false, true, true, false)),
                                     (String ((Ascii (true, true, true,
                                     false, false, true, true, false)),
                                     (String ((Ascii (false, true, true,
                                     true, false, true, true, false)),
                                     (String ((Ascii (true, false, false,
                                     false, true, true, false, false)),
                                     EmptyString))))))))))))))))))
                                then Some { fromv =
                                       (Obj.magic coq_CoseSign1_from_value);
                                       tov =
                                       (Obj.magic coq_CoseSign1_to_value);
                                       dsc = (Obj.magic d_sign1); odsc =
                                       (Obj.magic o_sign1); tagn = (tags ty) }
                                else if eqb ty (String ((Ascii (true, true,
                                          false, false, false, false, true,
                                          false)), (String ((Ascii (true,
                                          true, true, true, false, true,
                                          true, false)), (String ((Ascii
                                          (true, true, false, false, true,
                                          true, true, false)), (String
                                          ((Ascii (true, false, true, false,
                                          false, true, true, false)), (String
                                          ((Ascii (true, false, true, true,
                                          false, false, true, false)),
                                          (String ((Ascii (true, false,
                                          false, false, false, true, true,
                                          false)), (String ((Ascii (true,
                                          true, false, false, false, true,
                                          true, false)),
                                          EmptyString))))))))))))))
                                     then Some { fromv =
                                            (Obj.magic coq_CoseMac_from_value);
                                            tov =
                                            (Obj.magic coq_CoseMac_to_value);
                                            dsc = (Obj.magic d_mac); odsc =
                                            (Obj.magic o_mac); tagn =
                                            (tags ty) }
                                     else if eqb ty (String ((Ascii (true,
                                               true, false, false, false,
                                               false, true, false)), (String
                                               ((Ascii (true, true, true,
                                               true, false, true, true,
                                               false)), (String ((Ascii
                                               (true, true, false, false,
                                               true, true, true, false)),
                                               (String ((Ascii (true, false,
                                               true, false, false, true,
                                               true, false)), (String ((Ascii
                                               (true, false, true, true,
                                               false, false, true, false)),
                                               (String ((Ascii (true, false,
                                               false, false, false, true,
                                               true, false)), (String ((Ascii
                                               (true, true, false, false,
                                               false, true, true, false)),
                                               (String ((Ascii (false, false,
                                               false, false, true, true,
                                               false, false)),
                                               EmptyString))))))))))))))))
                                          then Some { fromv =
                                                 (Obj.magic
                                                   coq_CoseMac0_from_value);
                                                 tov =
                                                 (Obj.magic
                                                   coq_CoseMac0_to_value);
                                                 dsc = (Obj.magic d_mac0);
                                                 odsc = (Obj.magic o_mac0);
                                                 tagn = (tags ty) }
                                          else if eqb ty (String ((Ascii
                                                    (true, true, false,
                                                    false, false, false,
                                                    true, false)), (String
                                                    ((Ascii (true, true,
                                                    true, true, false, true,
                                                    true, false)), (String
                                                    ((Ascii (true, true,
                                                    false, false, true, true,
                                                    true, false)), (String
                                                    ((Ascii (true, false,
                                                    true, false, false, true,
                                                    true, false)), (String
                                                    ((Ascii (false, true,
                                                    false, false, true,
                                                    false, true, false)),
                                                    (String ((Ascii (true,
                                                    false, true, false,
                                                    false, true, true,
                                                    false)), (String ((Ascii
                                                    (true, true, false,
                                                    false, false, true, true,
                                                    false)), (String ((Ascii
                                                    (true, false, false,
                                                    true, false, true, true,
                                                    false)), (String ((Ascii
                                                    (false, false, false,
                                                    false, true, true, true,
                                                    false)), (String ((Ascii
                                                    (true, false, false,
                                                    true, false, true, true,
                                                    false)), (String ((Ascii
                                                    (true, false, true,
                                                    false, false, true, true,
                                                    false)), (String ((Ascii
                                                    (false, true, true, true,
                                                    false, true, true,
                                                    false)), (String ((Ascii
                                                    (false, false, true,
                                                    false, true, true, true,
                                                    false)),
                                                    EmptyString))))))))))))))))))))))))))
                                               then Some { fromv =
                                                      (Obj.magic
                                                        coq_CoseRecipient_from_value);
                                                      tov =
                                                      (Obj.magic
                                                        coq_CoseRecipient_to_value);
                                                      dsc =
                                                      (Obj.magic d_recipient);
                                                      odsc =
                                                      (Obj.magic o_recipient);
                                                      tagn = None }
                                               else if eqb ty (String ((Ascii
                                                         (true, true, false,
                                                         false, false, false,
                                                         true, false)),
                                                         (String ((Ascii
                                                         (true, true, true,
                                                         true, false, true,
                                                         true, false)),
                                                         (String ((Ascii
                                                         (true, true, false,
                                                         false, true, true,
                                                         true, false)),
                                                         (String ((Ascii
                                                         (true, false, true,
                                                         false, false, true,
                                                         true, false)),
                                                         (String ((Ascii
                                                         (true, false, true,
                                                         false, false, false,
                                                         true, false)),
                                                         (String ((Ascii
                                                         (false, true, true,
                                                         true, false, true,
                                                         true, false)),
                                                         (String ((Ascii
                                                         (true, true, false,
                                                         false, false, true,
                                                         true, false)),
                                                         (String ((Ascii
                                                         (false, true, false,
                                                         false, true, true,
                                                         true, false)),
                                                         (String ((Ascii
                                                         (true, false, false,
                                                         true, true, true,
                                                         true, false)),
                                                         (String ((Ascii
                                                         (false, false,
                                                         false, false, true,
                                                         true, true, false)),
                                                         (String ((Ascii
                                                         (false, false, true,
                                                         false, true, true,
                                                         true, false)),
                                                         EmptyString))))))))))))))))))))))
                                                    then Some { fromv =
                                                           (Obj.magic
                                                             coq_CoseEncrypt_from_value);
                                                           tov =
                                                           (Obj.magic
                                                             coq_CoseEncrypt_to_value);
                                                           dsc =
                                                           (Obj.magic
                                                             d_encrypt);
                                                           odsc =
                                                           (Obj.magic
                                                             o_encrypt);
                                                           tagn = (tags ty) }
                                                    else if eqb ty (String
                                                              ((Ascii (true,
                                                              true, false,
                                                              false, false,
                                                              false, true,
                                                              false)),
                                                              (String ((Ascii
                                                              (true, true,
                                                              true, true,
                                                              false, true,
                                                              true, false)),
                                                              (String ((Ascii
                                                              (true, true,
                                                              false, false,
                                                              true, true,
                                                              true, false)),
                                                              (String ((Ascii
                                                              (true, false,
                                                              true, false,
                                                              false, true,
                                                              true, false)),
                                                              (String ((Ascii
                                                              (true, false,
                                                              true, false,
                                                              false, false,
                                                              true, false)),
                                                              (String ((Ascii
                                                              (false, true,
                                                              true, true,
                                                              false, true,
                                                              true, false)),
                                                              (String ((Ascii
                                                              (true, true,
                                                              false, false,
                                                              false, true,
                                                              true, false)),
                                                              (String ((Ascii
                                                              (false, true,
                                                              false, false,
                                                              true, true,
                                                              true, false)),
                                                              (String ((Ascii
                                                              (true, false,
                                                              false, true,
                                                              true, true,
                                                              true, false)),
                                                              (String ((Ascii
                                                              (false, false,
                                                              false, false,
                                                              true, true,
                                                              true, false)),
                                                              (String ((Ascii
                                                              (false, false,
                                                              true, false,
                                                              true, true,
                                                              true, false)),
                                                              (String ((Ascii
                                                              (false, false,
                                                              false, false,
                                                              true, true,
                                                              false, false)),
                                                              EmptyString))))))))))))))))))))))))
                                                         then Some { fromv =
                                                                (Obj.magic
                                                                  coq_CoseEncrypt0_from_value);
                                                                tov =
                                                                (Obj.magic
                                                                  coq_CoseEncrypt0_to_value);
                                                                dsc =
                                                                (Obj.magic
                                                                  d_encrypt0);
                                                                odsc =
                                                                (Obj.magic
                                                                  o_encrypt0);
                                                                tagn =
                                                                (tags ty) }
                                                         else if eqb ty
                                                                   (String
                                                                   ((Ascii
                                                                   (true,
                                                                   true,
                                                                   false,
                                                                   false,
                                                                   false,
                                                                   false,
                                                                   true,
                                                                   false)),
                                                                   (String
                                                                   ((Ascii
                                                                   (true,
                                                                   true,
                                                                   true,
                                                                   true,
                                                                   false,
                                                                   true,
                                                                   true,
                                                                   false)),
                                                                   (String
                                                                   ((Ascii
                                                                   (true,
                                                                   true,
                                                                   false,
                                                                   false,
                                                                   true,
                                                                   true,
                                                                   true,
                                                                   false)),
                                                                   (String
                                                                   ((Ascii
                                                                   (true,
                                                                   false,
                                                                   true,
                                                                   false,
                                                                   false,
                                                                   true,
                                                                   true,
                                                                   false)),
                                                                   (String
                                                                   ((Ascii
                                                                   (true,
                                                                   true,
                                                                   false,
                                                                   true,
                                                                   false,
                                                                   false,
                                                                   true,
                                                                   false)),
                                                                   (String
                                                                   ((Ascii
                                                                   (true,
                                                                   false,
                                                                   true,
                                                                   false,
                                                                   false,
                                                                   true,
                                                                   true,
                                                                   false)),
                                                                   (String
                                                                   ((Ascii
                                                                   (true,
                                                                   false,
                                                                   false,
                                                                   true,
                                                                   true,
                                                                   true,
                                                                   true,
                                                                   false)),
                                                                   EmptyString))))))))))))))
                                                              then Some
                                                                    { fromv =
                                                                    (Obj.magic
                                                                    coq_CoseKey_from_value);
                                                                    tov =
                                                                    (Obj.magic
                                                                    coq_CoseKey_to_value);
                                                                    dsc =
                                                                    (Obj.magic
                                                                    d_key);
                                                                    odsc =
                                                                    (Obj.magic
                                                                    o_key);
                                                                    tagn =
                                                                    None }
                                                              else if 
                                                                    eqb ty
                                                                    (String
                                                                    ((Ascii
                                                                    (true,
                                                                    true,
                                                                    false,
                                                                    false,
                                                                    false,
                                                                    false,
                                                                    true,
                                                                    false)),
                                                                    (String
                                                                    ((Ascii
                                                                    (true,
                                                                    true,
                                                                    true,
                                                                    true,
                                                                    false,
                                                                    true,
                                                                    true,
                                                                    false)),
                                                                    (String
                                                                    ((Ascii
                                                                    (true,
                                                                    true,
                                                                    false,
                                                                    false,
                                                                    true,
                                                                    true,
                                                                    true,
                                                                    false)),
                                                                    (String
                                                                    ((Ascii
                                                                    (true,
                                                                    false,
                                                                    true,
                                                                    false,
                                                                    false,
                                                                    true,
                                                                    true,
                                                                    false)),
                                                                    (String
                                                                    ((Ascii
                                                                    (true,
                                                                    true,
                                                                    false,
                                                                    true,
                                                                    false,
                                                                    false,
                                                                    true,
                                                                    false)),
                                                                    (String
                                                                    ((Ascii
                                                                    (true,
                                                                    false,
                                                                    true,
                                                                    false,
                                                                    false,
                                                                    true,
                                                                    true,
                                                                    false)),
                                                                    (String
                                                                    ((Ascii
                                                                    (true,
                                                                    false,
                                                                    false,
                                                                    true,
                                                                    true,
                                                                    true,
                                                                    true,
                                                                    false)),
                                                                    (String
                                                                    ((Ascii
                                                                    (true,
                                                                    true,
                                                                    false,
                                                                    false,
                                                                    true,
                                                                    false,
                                                                    true,
                                                                    false)),
                                                                    (String
                                                                    ((Ascii
                                                                    (true,
                                                                    false,
                                                                    true,
                                                                    false,
                                                                    false,
                                                                    true,
                                                                    true,
                                                                    false)),
                                                                    (String
                                                                    ((Ascii
                                                                    (false,
                                                                    false,
                                                                    true,
                                                                    false,
                                                                    true,
                                                                    true,
                                                                    true,
                                                                    false)),
                                                                    EmptyString))))))))))))))))))))
                                                                   then 
                                                                    Some
                                                                    { fromv =
                                                                    (Obj.magic
                                                                    coq_CoseKeySet_from_value);
                                                                    tov =
                                                                    (Obj.magic
                                                                    coq_CoseKeySet_to_value);
                                                                    dsc =
                                                                    (Obj.magic
                                                                    d_keyset);
                                                                    odsc =
                                                                    (Obj.magic
                                                                    o_list
                                                                    o_key);
                                                                    tagn =
                                                                    None }
                                                                   else 
                                                                    if 
                                                                    eqb ty
                                                                    (String
                                                                    ((Ascii
                                                                    (true,
                                                                    true,
                                                                    false,
                                                                    false,
                                                                    false,
                                                                    false,
                                                                    true,
                                                                    false)),
                                                                    (String
                                                                    ((Ascii
                                                                    (false,
                                                                    false,
                                                                    true,
                                                                    true,
                                                                    false,
                                                                    true,
                                                                    true,
                                                                    false)),
                                                                    (String
                                                                    ((Ascii
                                                                    (true,
                                                                    false,
                                                                    false,
                                                                    false,
                                                                    false,
                                                                    true,
                                                                    true,
                                                                    false)),
                                                                    (String
                                                                    ((Ascii
                                                                    (true,
                                                                    false,
                                                                    false,
                                                                    true,
                                                                    false,
                                                                    true,
                                                                    true,
                                                                    false)),
                                                                    (String
                                                                    ((Ascii
                                                                    (true,
                                                                    false,
                                                                    true,
                                                                    true,
                                                                    false,
                                                                    true,
                                                                    true,
                                                                    false)),
                                                                    (String
                                                                    ((Ascii
                                                                    (true,
                                                                    true,
                                                                    false,
                                                                    false,
                                                                    true,
                                                                    true,
                                                                    true,
                                                                    false)),
                                                                    (String
                                                                    ((Ascii
                                                                    (true,
                                                                    true,
                                                                    false,
                                                                    false,
                                                                    true,
                                                                    false,
                                                                    true,
                                                                    false)),
                                                                    (String
                                                                    ((Ascii
                                                                    (true,
                                                                    false,
                                                                    true,
                                                                    false,
                                                                    false,
                                                                    true,
                                                                    true,
                                                                    false)),
                                                                    (String
                                                                    ((Ascii
                                                                    (false,
                                                                    false,
                                                                    true,
                                                                    false,
                                                                    true,
                                                                    true,
                                                                    true,
                                                                    false)),
                                                                    EmptyString))))))))))))))))))
                                                                    then 
                                                                    Some
                                                                    { fromv =
                                                                    (Obj.magic
                                                                    coq_ClaimsSet_from_value);
                                                                    tov =
                                                                    (Obj.magic
                                                                    coq_ClaimsSet_to_value);
                                                                    dsc =
                                                                    (Obj.magic
                                                                    d_claims);
                                                                    odsc =
                                                                    (Obj.magic
                                                                    o_claims);
                                                                    tagn =
                                                                    None }
                                                                    else 
                                                                    if 
                                                                    eqb ty
                                                                    (String
                                                                    ((Ascii
                                                                    (false,
                                                                    false,
                                                                    false,
                                                                    false,
                                                                    true,
                                                                    false,
                                                                    true,
                                                                    false)),
                                                                    (String
                                                                    ((Ascii
                                                                    (true,
                                                                    false,
                                                                    false,
                                                                    false,
                                                                    false,
                                                                    true,
                                                                    true,
                                                                    false)),
                                                                    (String
                                                                    ((Ascii
                                                                    (false,
                                                                    true,
                                                                    false,
                                                                    false,
                                                                    true,
                                                                    true,
                                                                    true,
                                                                    false)),
                                                                    (String
                                                                    ((Ascii
                                                                    (false,
                                                                    false,
                                                                    true,
                                                                    false,
                                                                    true,
                                                                    true,
                                                                    true,
                                                                    false)),
                                                                    (String
                                                                    ((Ascii
                                                                    (true,
                                                                    false,
                                                                    false,
                                                                    true,
                                                                    true,
                                                                    true,
                                                                    true,
                                                                    false)),
                                                                    (String
                                                                    ((Ascii
                                                                    (true,
                                                                    false,
                                                                    false,
                                                                    true,
                                                                    false,
                                                                    false,
                                                                    true,
                                                                    false)),
                                                                    (String
                                                                    ((Ascii
                                                                    (false,
                                                                    true,
                                                                    true,
                                                                    true,
                                                                    false,
                                                                    true,
                                                                    true,
                                                                    false)),
                                                                    (String
                                                                    ((Ascii
                                                                    (false,
                                                                    true,
                                                                    true,
                                                                    false,
                                                                    false,
                                                                    true,
                                                                    true,
                                                                    false)),
                                                                    (String
                                                                    ((Ascii
                                                                    (true,
                                                                    true,
                                                                    true,
                                                                    true,
                                                                    false,
                                                                    true,
                                                                    true,
                                                                    false)),
                                                                    EmptyString))))))))))))))))))
                                                                    then 
                                                                    Some
                                                                    { fromv =
                                                                    (Obj.magic
                                                                    coq_PartyInfo_from_value);
                                                                    tov =
                                                                    (Obj.magic
                                                                    coq_PartyInfo_to_value);
                                                                    dsc =
                                                                    (Obj.magic
                                                                    d_party);
                                                                    odsc =
                                                                    (Obj.magic
                                                                    o_party);
                                                                    tagn =
                                                                    None }
                                                                    else 
                                                                    if 
                                                                    eqb ty
                                                                    (String
                                                                    ((Ascii
                                                                    (true,
                                                                    true,
                                                                    false,
                                                                    false,
                                                                    true,
                                                                    false,
                                                                    true,
                                                                    false)),
                                                                    (String
                                                                    ((Ascii
                                                                    (true,
                                                                    false,
                                                                    true,
                                                                    false,
                                                                    true,
                                                                    true,
                                                                    true,
                                                                    false)),
                                                                    (String
                                                                    ((Ascii
                                                                    (false,
                                                                    false,
                                                                    false,
                                                                    false,
                                                                    true,
                                                                    true,
                                                                    true,
                                                                    false)),
                                                                    (String
                                                                    ((Ascii
                                                                    (false,
                                                                    false,
                                                                    false,
                                                                    false,
                                                                    true,
                                                                    true,
                                                                    true,
                                                                    false)),
                                                                    (String
                                                                    ((Ascii
                                                                    (false,
                                                                    false,
                                                                    false,
                                                                    false,
                                                                    true,
                                                                    false,
                                                                    true,
                                                                    false)),
                                                                    (String
                                                                    ((Ascii
                                                                    (true,
                                                                    false,
                                                                    true,
                                                                    false,
                                                                    true,
                                                                    true,
                                                                    true,
                                                                    false)),
                                                                    (String
                                                                    ((Ascii
                                                                    (false,
                                                                    true,
                                                                    false,
                                                                    false,
                                                                    false,
                                                                    true,
                                                                    true,
                                                                    false)),
                                                                    (String
                                                                    ((Ascii
                                                                    (true,
                                                                    false,
                                                                    false,
                                                                    true,
                                                                    false,
                                                                    false,
                                                                    true,
                                                                    false)),
                                                                    (String
                                                                    ((Ascii
                                                                    (false,
                                                                    true,
                                                                    true,
                                                                    true,
                                                                    false,
                                                                    true,
                                                                    true,
                                                                    false)),
                                                                    (String
                                                                    ((Ascii
                                                                    (false,
                                                                    true,
                                                                    true,
                                                                    false,
                                                                    false,
                                                                    true,
                                                                    true,
                                                                    false)),
                                                                    (String
                                                                    ((Ascii
                                                                    (true,
                                                                    true,
                                                                    true,
                                                                    true,
                                                                    false,
                                                                    true,
                                                                    true,
                                                                    false)),
                                                                    EmptyString))))))))))))))))))))))
                                                                    then 
                                                                    Some
                                                                    { fromv =
                                                                    (Obj.magic
                                                                    coq_SuppPubInfo_from_value);
                                                                    tov =
                                                                    (Obj.magic
                                                                    coq_SuppPubInfo_to_value);
                                                                    dsc =
                                                                    (Obj.magic
                                                                    d_supp);
                                                                    odsc =
                                                                    (Obj.magic
                                                                    o_supp);
                                                                    tagn =
                                                                    None }
                                                                    else 
                                                                    if 
                                                                    eqb ty
                                                                    (String
                                                                    ((Ascii
                                                                    (true,
                                                                    true,
                                                                    false,
                                                                    false,
                                                                    false,
                                                                    false,
                                                                    true,
                                                                    false)),
                                                                    (String
                                                                    ((Ascii
                                                                    (true,
                                                                    true,
                                                                    true,
                                                                    true,
                                                                    false,
                                                                    true,
                                                                    true,
                                                                    false)),
                                                                    (String
                                                                    ((Ascii
                                                                    (true,
                                                                    true,
                                                                    false,
                                                                    false,
                                                                    true,
                                                                    true,
                                                                    true,
                                                                    false)),
                                                                    (String
                                                                    ((Ascii
                                                                    (true,
                                                                    false,
                                                                    true,
                                                                    false,
                                                                    false,
                                                                    true,
                                                                    true,
                                                                    false)),
                                                                    (String
                                                                    ((Ascii
                                                                    (true,
                                                                    true,
                                                                    false,
                                                                    true,
                                                                    false,
                                                                    false,
                                                                    true,
                                                                    false)),
                                                                    (String
                                                                    ((Ascii
                                                                    (false,
                                                                    false,
                                                                    true,
                                                                    false,
                                                                    false,
                                                                    true,
                                                                    true,
                                                                    false)),
                                                                    (String
                                                                    ((Ascii
                                                                    (false,
                                                                    true,
                                                                    true,
                                                                    false,
                                                                    false,
                                                                    true,
                                                                    true,
                                                                    false)),
                                                                    (String
                                                                    ((Ascii
                                                                    (true,
                                                                    true,
                                                                    false,
                                                                    false,
                                                                    false,
                                                                    false,
                                                                    true,
                                                                    false)),
                                                                    (String
                                                                    ((Ascii
                                                                    (true,
                                                                    true,
                                                                    true,
                                                                    true,
                                                                    false,
                                                                    true,
                                                                    true,
                                                                    false)),
                                                                    (String
                                                                    ((Ascii
                                                                    (false,
                                                                    true,
                                                                    true,
                                                                    true,
                                                                    false,
                                                                    true,
                                                                    true,
                                                                    false)),
                                                                    (String
                                                                    ((Ascii
                                                                    (false,
                                                                    false,
                                                                    true,
                                                                    false,
                                                                    true,
                                                                    true,
                                                                    true,
                                                                    false)),
                                                                    (String
                                                                    ((Ascii
                                                                    (true,
                                                                    false,
                                                                    true,
                                                                    false,
                                                                    false,
                                                                    true,
                                                                    true,
                                                                    false)),
                                                                    (String
                                                                    ((Ascii
                                                                    (false,
                                                                    false,
                                                                    false,
                                                                    true,
                                                                    true,
                                                                    true,
                                                                    true,
                                                                    false)),
                                                                    (String
                                                                    ((Ascii
                                                                    (false,
                                                                    false,
                                                                    true,
                                                                    false,
                                                                    true,
                                                                    true,
                                                                    true,
                                                                    false)),
                                                                    EmptyString))))))))))))))))))))))))))))
                                                                    then 
                                                                    Some
                                                                    { fromv =
                                                                    (Obj.magic
                                                                    coq_CoseKdfContext_from_value);
                                                                    tov =
                                                                    (Obj.magic
                                                                    coq_CoseKdfContext_to_value);
                                                                    dsc =
                                                                    (Obj.magic
                                                                    d_kdf);
                                                                    odsc =
                                                                    (Obj.magic
                                                                    o_kdf);
                                                                    tagn =
                                                                    None }
                                                                    else 
                                                                    (match 
                                                                    prefix_split
                                                                    (String
                                                                    ((Ascii
                                                                    (false,
                                                                    true,
                                                                    false,
                                                                    false,
                                                                    true,
                                                                    false,
                                                                    true,
                                                                    false)),
                                                                    (String
                                                                    ((Ascii
                                                                    (true,
                                                                    false,
                                                                    true,
                                                                    false,
                                                                    false,
                                                                    true,
                                                                    true,
                                                                    false)),
                                                                    (String
                                                                    ((Ascii
                                                                    (true,
                                                                    true,
                                                                    true,
                                                                    false,
                                                                    false,
                                                                    true,
                                                                    true,
                                                                    false)),
                                                                    (String
                                                                    ((Ascii
                                                                    (false,
                                                                    true,
                                                                    false,
                                                                    true,
                                                                    true,
                                                                    true,
                                                                    false,
                                                                    false)),
                                                                    EmptyString))))))))
                                                                    ty with
                                                                    | Some reg ->
                                                                    Some
                                                                    (reg_ty
                                                                    reg)
                                                                    | None ->
                                                                    (match 
                                                                    prefix_split
                                                                    (String
                                                                    ((Ascii
                                                                    (false,
                                                                    true,
                                                                    false,
                                                                    false,
                                                                    true,
                                                                    false,
                                                                    true,
                                                                    false)),
                                                                    (String
                                                                    ((Ascii
                                                                    (true,
                                                                    false,
                                                                    true,
                                                                    false,
                                                                    false,
                                                                    true,
                                                                    true,
                                                                    false)),
                                                                    (String
                                                                    ((Ascii
                                                                    (true,
                                                                    true,
                                                                    true,
                                                                    false,
                                                                    false,
                                                                    true,
                                                                    true,
                                                                    false)),
                                                                    (String
                                                                    ((Ascii
                                                                    (false,
                                                                    false,
                                                                    false,
                                                                    false,
                                                                    true,
                                                                    false,
                                                                    true,
                                                                    false)),
                                                                    (String
                                                                    ((Ascii
                                                                    (false,
                                                                    true,
                                                                    false,
                                                                    true,
                                                                    true,
                                                                    true,
                                                                    false,
                                                                    false)),
                                                                    EmptyString))))))))))
                                                                    ty with
                                                                    | Some reg ->
                                                                    Some
                                                                    (regp_ty
                                                                    reg)
                                                                    | None ->
                                                                    None))

(** val badcase : bytes **)

let badcase =
  s2b (String ((Ascii (false, true, false, false, false, true, true, false)),
    (String ((Ascii (true, false, false, false, false, true, true, false)),
    (String ((Ascii (false, false, true, false, false, true, true, false)),
    (String ((Ascii (true, true, false, false, false, true, true, false)),
    (String ((Ascii (true, false, false, false, false, true, true, false)),
    (String ((Ascii (true, true, false, false, true, true, true, false)),
    (String ((Ascii (true, false, true, false, false, true, true, false)),
    EmptyString))))))))))))))

(** val show_hex : bytes -> bytes **)

let show_hex =
  hex_of_bytes

(** val show_bool : bool -> bytes **)

let show_bool b =
  s2b
    (if b
     then String ((Ascii (false, false, true, false, true, false, true,
            false)), EmptyString)
     else String ((Ascii (false, true, true, false, false, false, true,
            false)), EmptyString))

(** val sp : bytes **)

let sp =
  s2b (String ((Ascii (false, false, false, false, false, true, false,
    false)), EmptyString))

(** val desc_arg : bytes -> value res **)

let desc_arg =
  read_to_value

(** val show_decoded : string -> ty_ops -> carrier -> bytes **)

let show_decoded ty t x =
  if eqb ty (String ((Ascii (true, true, false, false, false, false, true,
       false)), (String ((Ascii (true, true, true, true, false, true, true,
       false)), (String ((Ascii (true, true, false, false, true, true, true,
       false)), (String ((Ascii (true, false, true, false, false, true, true,
       false)), (String ((Ascii (true, true, false, true, false, false, true,
       false)), (String ((Ascii (false, false, true, false, false, true,
       true, false)), (String ((Ascii (false, true, true, false, false, true,
       true, false)), (String ((Ascii (true, true, false, false, false,
       false, true, false)), (String ((Ascii (true, true, true, true, false,
       true, true, false)), (String ((Ascii (false, true, true, true, false,
       true, true, false)), (String ((Ascii (false, false, true, false, true,
       true, true, false)), (String ((Ascii (true, false, true, false, false,
       true, true, false)), (String ((Ascii (false, false, false, true, true,
       true, true, false)), (String ((Ascii (false, false, true, false, true,
       true, true, false)), EmptyString))))))))))))))))))))))))))))
  then app
         (s2b (String ((Ascii (true, false, true, false, false, true, true,
           false)), (String ((Ascii (false, true, true, true, false, true,
           true, false)), (String ((Ascii (true, true, false, false, false,
           true, true, false)), (String ((Ascii (true, false, true, true,
           true, true, false, false)), EmptyString)))))))))
         (match to_vec t.tov x with
          | Ok b -> show_hex b
          | _ ->
            s2b (String ((Ascii (true, true, true, true, true, true, false,
              false)), EmptyString)))
  else show_value (t.dsc x)

(** val tagged_from : ty_ops -> bytes -> carrier res **)

let tagged_from t b =
  match t.tagn with
  | Some n -> from_tagged_slice t.fromv n b
  | None -> Err EEncode

(** val tagged_to : ty_ops -> carrier -> bytes res **)

let tagged_to t x =
  match t.tagn with
  | Some n -> to_tagged_vec t.tov n x
  | None -> Err EEncode

(** val roundtrip :
    string -> ty_ops -> (bytes -> carrier res) -> (carrier -> bytes res) ->
    bytes -> bytes **)

let roundtrip ty t dec enc b =
  match dec b with
  | Ok v ->
    (match enc v with
     | Ok b1 ->
       (match dec b1 with
        | Ok v2 ->
          (match enc v2 with
           | Ok b2 ->
             app
               (s2b (String ((Ascii (true, true, true, true, false, true,
                 true, false)), (String ((Ascii (true, true, false, true,
                 false, true, true, false)), (String ((Ascii (false, false,
                 false, false, false, true, false, false)), EmptyString)))))))
               (app (show_hex b1)
                 (app sp
                   (app
                     (show_bool
                       (bytes_eqb (show_decoded ty t v)
                         (show_decoded ty t v2)))
                     (app sp (show_bool (bytes_eqb b1 b2))))))
           | Err e ->
             app
               (s2b (String ((Ascii (true, true, true, true, false, true,
                 true, false)), (String ((Ascii (true, true, false, true,
                 false, true, true, false)), (String ((Ascii (false, false,
                 false, false, false, true, false, false)), EmptyString)))))))
               (app (show_hex b1)
                 (app
                   (s2b (String ((Ascii (false, false, false, false, false,
                     true, false, false)), (String ((Ascii (false, true,
                     false, false, true, true, true, false)), (String ((Ascii
                     (true, false, true, false, false, true, true, false)),
                     (String ((Ascii (true, false, true, false, false, true,
                     true, false)), (String ((Ascii (false, true, true, true,
                     false, true, true, false)), (String ((Ascii (true, true,
                     false, false, false, true, true, false)), (String
                     ((Ascii (true, true, true, true, false, true, true,
                     false)), (String ((Ascii (false, false, true, false,
                     false, true, true, false)), (String ((Ascii (true,
                     false, true, false, false, true, true, false)), (String
                     ((Ascii (false, true, false, false, true, true, false,
                     false)), (String ((Ascii (true, false, true, true,
                     false, true, false, false)), (String ((Ascii (false,
                     true, true, false, false, true, true, false)), (String
                     ((Ascii (true, false, false, false, false, true, true,
                     false)), (String ((Ascii (true, false, false, true,
                     false, true, true, false)), (String ((Ascii (false,
                     false, true, true, false, true, true, false)), (String
                     ((Ascii (true, false, true, false, false, true, true,
                     false)), (String ((Ascii (false, false, true, false,
                     false, true, true, false)), (String ((Ascii (false,
                     false, false, false, false, true, false, false)),
                     EmptyString)))))))))))))))))))))))))))))))))))))
                   (show_res show_hex (Err e))))
           | Panic ->
             app
               (s2b (String ((Ascii (true, true, true, true, false, true,
                 true, false)), (String ((Ascii (true, true, false, true,
                 false, true, true, false)), (String ((Ascii (false, false,
                 false, false, false, true, false, false)), EmptyString)))))))
               (app (show_hex b1)
                 (app
                   (s2b (String ((Ascii (false, false, false, false, false,
                     true, false, false)), (String ((Ascii (false, true,
                     false, false, true, true, true, false)), (String ((Ascii
                     (true, false, true, false, false, true, true, false)),
                     (String ((Ascii (true, false, true, false, false, true,
                     true, false)), (String ((Ascii (false, true, true, true,
                     false, true, true, false)), (String ((Ascii (true, true,
                     false, false, false, true, true, false)), (String
                     ((Ascii (true, true, true, true, false, true, true,
                     false)), (String ((Ascii (false, false, true, false,
                     false, true, true, false)), (String ((Ascii (true,
                     false, true, false, false, true, true, false)), (String
                     ((Ascii (false, true, false, false, true, true, false,
                     false)), (String ((Ascii (true, false, true, true,
                     false, true, false, false)), (String ((Ascii (false,
                     true, true, false, false, true, true, false)), (String
                     ((Ascii (true, false, false, false, false, true, true,
                     false)), (String ((Ascii (true, false, false, true,
                     false, true, true, false)), (String ((Ascii (false,
                     false, true, true, false, true, true, false)), (String
                     ((Ascii (true, false, true, false, false, true, true,
                     false)), (String ((Ascii (false, false, true, false,
                     false, true, true, false)), (String ((Ascii (false,
                     false, false, false, false, true, false, false)),
                     EmptyString)))))))))))))))))))))))))))))))))))))
                   (show_res show_hex Panic)))
           | OutOfFuel ->
             app
               (s2b (String ((Ascii (true, true, true, true, false, true,
                 true, false)), (String ((Ascii (true, true, false, true,
                 false, true, true, false)), (String ((Ascii (false, false,
                 false, false, false, true, false, false)), EmptyString)))))))
               (app (show_hex b1)
                 (app
                   (s2b (String ((Ascii (false, false, false, false, false,
                     true, false, false)), (String ((Ascii (false, true,
                     false, false, true, true, true, false)), (String ((Ascii
                     (true, false, true, false, false, true, true, false)),
                     (String ((Ascii (true, false, true, false, false, true,
                     true, false)), (String ((Ascii (false, true, true, true,
                     false, true, true, false)), (String ((Ascii (true, true,
                     false, false, false, true, true, false)), (String
                     ((Ascii (true, true, true, true, false, true, true,
                     false)), (String ((Ascii (false, false, true, false,
                     false, true, true, false)), (String ((Ascii (true,
                     false, true, false, false, true, true, false)), (String
                     ((Ascii (false, true, false, false, true, true, false,
                     false)), (String ((Ascii (true, false, true, true,
                     false, true, false, false)), (String ((Ascii (false,
                     true, true, false, false, true, true, false)), (String
                     ((Ascii (true, false, false, false, false, true, true,
                     false)), (String ((Ascii (true, false, false, true,
                     false, true, true, false)), (String ((Ascii (false,
                     false, true, true, false, true, true, false)), (String
                     ((Ascii (true, false, true, false, false, true, true,
                     false)), (String ((Ascii (false, false, true, false,
                     false, true, true, false)), (String ((Ascii (false,
                     false, false, false, false, true, false, false)),
                     EmptyString)))))))))))))))))))))))))))))))))))))
                   (show_res show_hex OutOfFuel))))
        | Err e ->
          app
            (s2b (String ((Ascii (true, true, true, true, false, true, true,
              false)), (String ((Ascii (true, true, false, true, false, true,
              true, false)), (String ((Ascii (false, false, false, false,
              false, true, false, false)), EmptyString)))))))
            (app (show_hex b1)
              (app
                (s2b (String ((Ascii (false, false, false, false, false,
                  true, false, false)), (String ((Ascii (false, true, false,
                  false, true, true, true, false)), (String ((Ascii (true,
                  false, true, false, false, true, true, false)), (String
                  ((Ascii (false, false, true, false, false, true, true,
                  false)), (String ((Ascii (true, false, true, false, false,
                  true, true, false)), (String ((Ascii (true, true, false,
                  false, false, true, true, false)), (String ((Ascii (true,
                  true, true, true, false, true, true, false)), (String
                  ((Ascii (false, false, true, false, false, true, true,
                  false)), (String ((Ascii (true, false, true, false, false,
                  true, true, false)), (String ((Ascii (true, false, true,
                  true, false, true, false, false)), (String ((Ascii (false,
                  true, true, false, false, true, true, false)), (String
                  ((Ascii (true, false, false, false, false, true, true,
                  false)), (String ((Ascii (true, false, false, true, false,
                  true, true, false)), (String ((Ascii (false, false, true,
                  true, false, true, true, false)), (String ((Ascii (true,
                  false, true, false, false, true, true, false)), (String
                  ((Ascii (false, false, true, false, false, true, true,
                  false)), (String ((Ascii (false, false, false, false,
                  false, true, false, false)),
                  EmptyString)))))))))))))))))))))))))))))))))))
                (show_res (fun _ -> []) (Err e))))
        | Panic ->
          app
            (s2b (String ((Ascii (true, true, true, true, false, true, true,
              false)), (String ((Ascii (true, true, false, true, false, true,
              true, false)), (String ((Ascii (false, false, false, false,
              false, true, false, false)), EmptyString)))))))
            (app (show_hex b1)
              (app
                (s2b (String ((Ascii (false, false, false, false, false,
                  true, false, false)), (String ((Ascii (false, true, false,
                  false, true, true, true, false)), (String ((Ascii (true,
                  false, true, false, false, true, true, false)), (String
                  ((Ascii (false, false, true, false, false, true, true,
                  false)), (String ((Ascii (true, false, true, false, false,
                  true, true, false)), (String ((Ascii (true, true, false,
                  false, false, true, true, false)), (String ((Ascii (true,
                  true, true, true, false, true, true, false)), (String
                  ((Ascii (false, false, true, false, false, true, true,
                  false)), (String ((Ascii (true, false, true, false, false,
                  true, true, false)), (String ((Ascii (true, false, true,
                  true, false, true, false, false)), (String ((Ascii (false,
                  true, true, false, false, true, true, false)), (String
                  ((Ascii (true, false, false, false, false, true, true,
                  false)), (String ((Ascii (true, false, false, true, false,
                  true, true, false)), (String ((Ascii (false, false, true,
                  true, false, true, true, false)), (String ((Ascii (true,
                  false, true, false, false, true, true, false)), (String
                  ((Ascii (false, false, true, false, false, true, true,
                  false)), (String ((Ascii (false, false, false, false,
                  false, true, false, false)),
                  EmptyString)))))))))))))))))))))))))))))))))))
                (show_res (fun _ -> []) Panic)))
        | OutOfFuel ->
          app
            (s2b (String ((Ascii (true, true, true, true, false, true, true,
              false)), (String ((Ascii (true, true, false, true, false, true,
              true, false)), (String ((Ascii (false, false, false, false,
              false, true, false, false)), EmptyString)))))))
            (app (show_hex b1)
              (app
                (s2b (String ((Ascii (false, false, false, false, false,
                  true, false, false)), (String ((Ascii (false, true, false,
                  false, true, true, true, false)), (String ((Ascii (true,
                  false, true, false, false, true, true, false)), (String
                  ((Ascii (false, false, true, false, false, true, true,
                  false)), (String ((Ascii (true, false, true, false, false,
                  true, true, false)), (String ((Ascii (true, true, false,
                  false, false, true, true, false)), (String ((Ascii (true,
                  true, true, true, false, true, true, false)), (String
                  ((Ascii (false, false, true, false, false, true, true,
                  false)), (String ((Ascii (true, false, true, false, false,
                  true, true, false)), (String ((Ascii (true, false, true,
                  true, false, true, false, false)), (String ((Ascii (false,
                  true, true, false, false, true, true, false)), (String
                  ((Ascii (true, false, false, false, false, true, true,
                  false)), (String ((Ascii (true, false, false, true, false,
                  true, true, false)), (String ((Ascii (false, false, true,
                  true, false, true, true, false)), (String ((Ascii (true,
                  false, true, false, false, true, true, false)), (String
                  ((Ascii (false, false, true, false, false, true, true,
                  false)), (String ((Ascii (false, false, false, false,
                  false, true, false, false)),
                  EmptyString)))))))))))))))))))))))))))))))))))
                (show_res (fun _ -> []) OutOfFuel))))
     | Err e ->
       app
         (s2b (String ((Ascii (true, true, true, true, false, true, true,
           false)), (String ((Ascii (true, true, false, true, false, true,
           true, false)), (String ((Ascii (false, false, false, false, false,
           true, false, false)), (String ((Ascii (false, true, false, false,
           true, true, true, false)), (String ((Ascii (true, false, true,
           false, false, true, true, false)), (String ((Ascii (true, false,
           true, false, false, true, true, false)), (String ((Ascii (false,
           true, true, true, false, true, true, false)), (String ((Ascii
           (true, true, false, false, false, true, true, false)), (String
           ((Ascii (true, true, true, true, false, true, true, false)),
           (String ((Ascii (false, false, true, false, false, true, true,
           false)), (String ((Ascii (true, false, true, false, false, true,
           true, false)), (String ((Ascii (true, false, true, true, false,
           true, false, false)), (String ((Ascii (false, true, true, false,
           false, true, true, false)), (String ((Ascii (true, false, false,
           false, false, true, true, false)), (String ((Ascii (true, false,
           false, true, false, true, true, false)), (String ((Ascii (false,
           false, true, true, false, true, true, false)), (String ((Ascii
           (true, false, true, false, false, true, true, false)), (String
           ((Ascii (false, false, true, false, false, true, true, false)),
           (String ((Ascii (false, false, false, false, false, true, false,
           false)), EmptyString)))))))))))))))))))))))))))))))))))))))
         (show_res show_hex (Err e))
     | Panic ->
       app
         (s2b (String ((Ascii (true, true, true, true, false, true, true,
           false)), (String ((Ascii (true, true, false, true, false, true,
           true, false)), (String ((Ascii (false, false, false, false, false,
           true, false, false)), (String ((Ascii (false, true, false, false,
           true, true, true, false)), (String ((Ascii (true, false, true,
           false, false, true, true, false)), (String ((Ascii (true, false,
           true, false, false, true, true, false)), (String ((Ascii (false,
           true, true, true, false, true, true, false)), (String ((Ascii
           (true, true, false, false, false, true, true, false)), (String
           ((Ascii (true, true, true, true, false, true, true, false)),
           (String ((Ascii (false, false, true, false, false, true, true,
           false)), (String ((Ascii (true, false, true, false, false, true,
           true, false)), (String ((Ascii (true, false, true, true, false,
           true, false, false)), (String ((Ascii (false, true, true, false,
           false, true, true, false)), (String ((Ascii (true, false, false,
           false, false, true, true, false)), (String ((Ascii (true, false,
           false, true, false, true, true, false)), (String ((Ascii (false,
           false, true, true, false, true, true, false)), (String ((Ascii
           (true, false, true, false, false, true, true, false)), (String
           ((Ascii (false, false, true, false, false, true, true, false)),
           (String ((Ascii (false, false, false, false, false, true, false,
           false)), EmptyString)))))))))))))))))))))))))))))))))))))))
         (show_res show_hex Panic)
     | OutOfFuel ->
       app
         (s2b (String ((Ascii (true, true, true, true, false, true, true,
           false)), (String ((Ascii (true, true, false, true, false, true,
           true, false)), (String ((Ascii (false, false, false, false, false,
           true, false, false)), (String ((Ascii (false, true, false, false,
           true, true, true, false)), (String ((Ascii (true, false, true,
           false, false, true, true, false)), (String ((Ascii (true, false,
           true, false, false, true, true, false)), (String ((Ascii (false,
           true, true, true, false, true, true, false)), (String ((Ascii
           (true, true, false, false, false, true, true, false)), (String
           ((Ascii (true, true, true, true, false, true, true, false)),
           (String ((Ascii (false, false, true, false, false, true, true,
           false)), (String ((Ascii (true, false, true, false, false, true,
           true, false)), (String ((Ascii (true, false, true, true, false,
           true, false, false)), (String ((Ascii (false, true, true, false,
           false, true, true, false)), (String ((Ascii (true, false, false,
           false, false, true, true, false)), (String ((Ascii (true, false,
           false, true, false, true, true, false)), (String ((Ascii (false,
           false, true, true, false, true, true, false)), (String ((Ascii
           (true, false, true, false, false, true, true, false)), (String
           ((Ascii (false, false, true, false, false, true, true, false)),
           (String ((Ascii (false, false, false, false, false, true, false,
           false)), EmptyString)))))))))))))))))))))))))))))))))))))))
         (show_res show_hex OutOfFuel))
  | Err e ->
    app
      (s2b (String ((Ascii (false, true, false, false, true, true, true,
        false)), (String ((Ascii (true, false, true, false, false, true,
        true, false)), (String ((Ascii (false, true, false, true, false,
        true, true, false)), (String ((Ascii (false, false, false, false,
        false, true, false, false)), EmptyString)))))))))
      (show_res (fun _ -> []) (Err e))
  | Panic ->
    app
      (s2b (String ((Ascii (false, true, false, false, true, true, true,
        false)), (String ((Ascii (true, false, true, false, false, true,
        true, false)), (String ((Ascii (false, true, false, true, false,
        true, true, false)), (String ((Ascii (false, false, false, false,
        false, true, false, false)), EmptyString)))))))))
      (show_res (fun _ -> []) Panic)
  | OutOfFuel ->
    app
      (s2b (String ((Ascii (false, true, false, false, true, true, true,
        false)), (String ((Ascii (true, false, true, false, false, true,
        true, false)), (String ((Ascii (false, true, false, true, false,
        true, true, false)), (String ((Ascii (false, false, false, false,
        false, true, false, false)), EmptyString)))))))))
      (show_res (fun _ -> []) OutOfFuel)

(** val sig_ctx_of : string -> sig_context option **)

let sig_ctx_of s =
  if eqb s (String ((Ascii (true, true, false, false, false, false, true,
       false)), (String ((Ascii (true, true, true, true, false, true, true,
       false)), (String ((Ascii (true, true, false, false, true, true, true,
       false)), (String ((Ascii (true, false, true, false, false, true, true,
       false)), (String ((Ascii (true, true, false, false, true, false, true,
       false)), (String ((Ascii (true, false, false, true, false, true, true,
       false)), (String ((Ascii (true, true, true, false, false, true, true,
       false)), (String ((Ascii (false, true, true, true, false, true, true,
       false)), (String ((Ascii (true, false, false, false, false, true,
       true, false)), (String ((Ascii (false, false, true, false, true, true,
       true, false)), (String ((Ascii (true, false, true, false, true, true,
       true, false)), (String ((Ascii (false, true, false, false, true, true,
       true, false)), (String ((Ascii (true, false, true, false, false, true,
       true, false)), EmptyString))))))))))))))))))))))))))
  then Some SigCoseSignature
  else if eqb s (String ((Ascii (true, true, false, false, false, false,
            true, false)), (String ((Ascii (true, true, true, true, false,
            true, true, false)), (String ((Ascii (true, true, false, false,
            true, true, true, false)), (String ((Ascii (true, false, true,
            false, false, true, true, false)), (String ((Ascii (true, true,
            false, false, true, false, true, false)), (String ((Ascii (true,
            false, false, true, false, true, true, false)), (String ((Ascii
            (true, true, true, false, false, true, true, false)), (String
            ((Ascii (false, true, true, true, false, true, true, false)),
            (String ((Ascii (true, false, false, false, true, true, false,
            false)), EmptyString))))))))))))))))))
       then Some SigCoseSign1
       else if eqb s (String ((Ascii (true, true, false, false, false, false,
                 true, false)), (String ((Ascii (true, true, true, true,
                 false, true, true, false)), (String ((Ascii (true, false,
                 true, false, true, true, true, false)), (String ((Ascii
                 (false, true, true, true, false, true, true, false)),
                 (String ((Ascii (false, false, true, false, true, true,
                 true, false)), (String ((Ascii (true, false, true, false,
                 false, true, true, false)), (String ((Ascii (false, true,
                 false, false, true, true, true, false)), (String ((Ascii
                 (true, true, false, false, true, false, true, false)),
                 (String ((Ascii (true, false, false, true, false, true,
                 true, false)), (String ((Ascii (true, true, true, false,
                 false, true, true, false)), (String ((Ascii (false, true,
                 true, true, false, true, true, false)), (String ((Ascii
                 (true, false, false, false, false, true, true, false)),
                 (String ((Ascii (false, false, true, false, true, true,
                 true, false)), (String ((Ascii (true, false, true, false,
                 true, true, true, false)), (String ((Ascii (false, true,
                 false, false, true, true, true, false)), (String ((Ascii
                 (true, false, true, false, false, true, true, false)),
                 EmptyString))))))))))))))))))))))))))))))))
            then Some SigCounterSignature
            else None

(** val mac_ctx_of : string -> mac_context option **)

let mac_ctx_of s =
  if eqb s (String ((Ascii (true, true, false, false, false, false, true,
       false)), (String ((Ascii (true, true, true, true, false, true, true,
       false)), (String ((Ascii (true, true, false, false, true, true, true,
       false)), (String ((Ascii (true, false, true, false, false, true, true,
       false)), (String ((Ascii (true, false, true, true, false, false, true,
       false)), (String ((Ascii (true, false, false, false, false, true,
       true, false)), (String ((Ascii (true, true, false, false, false, true,
       true, false)), EmptyString))))))))))))))
  then Some MacCoseMac
  else if eqb s (String ((Ascii (true, true, false, false, false, false,
            true, false)), (String ((Ascii (true, true, true, true, false,
            true, true, false)), (String ((Ascii (true, true, false, false,
            true, true, true, false)), (String ((Ascii (true, false, true,
            false, false, true, true, false)), (String ((Ascii (true, false,
            true, true, false, false, true, false)), (String ((Ascii (true,
            false, false, false, false, true, true, false)), (String ((Ascii
            (true, true, false, false, false, true, true, false)), (String
            ((Ascii (false, false, false, false, true, true, false, false)),
            EmptyString))))))))))))))))
       then Some MacCoseMac0
       else None

(** val enc_ctx_of : string -> enc_context option **)

let enc_ctx_of s =
  if eqb s (String ((Ascii (true, true, false, false, false, false, true,
       false)), (String ((Ascii (true, true, true, true, false, true, true,
       false)), (String ((Ascii (true, true, false, false, true, true, true,
       false)), (String ((Ascii (true, false, true, false, false, true, true,
       false)), (String ((Ascii (true, false, true, false, false, false,
       true, false)), (String ((Ascii (false, true, true, true, false, true,
       true, false)), (String ((Ascii (true, true, false, false, false, true,
       true, false)), (String ((Ascii (false, true, false, false, true, true,
       true, false)), (String ((Ascii (true, false, false, true, true, true,
       true, false)), (String ((Ascii (false, false, false, false, true,
       true, true, false)), (String ((Ascii (false, false, true, false, true,
       true, true, false)), EmptyString))))))))))))))))))))))
  then Some EncCoseEncrypt
  else if eqb s (String ((Ascii (true, true, false, false, false, false,
            true, false)), (String ((Ascii (true, true, true, true, false,
            true, true, false)), (String ((Ascii (true, true, false, false,
            true, true, true, false)), (String ((Ascii (true, false, true,
            false, false, true, true, false)), (String ((Ascii (true, false,
            true, false, false, false, true, false)), (String ((Ascii (false,
            true, true, true, false, true, true, false)), (String ((Ascii
            (true, true, false, false, false, true, true, false)), (String
            ((Ascii (false, true, false, false, true, true, true, false)),
            (String ((Ascii (true, false, false, true, true, true, true,
            false)), (String ((Ascii (false, false, false, false, true, true,
            true, false)), (String ((Ascii (false, false, true, false, true,
            true, true, false)), (String ((Ascii (false, false, false, false,
            true, true, false, false)), EmptyString))))))))))))))))))))))))
       then Some EncCoseEncrypt0
       else if eqb s (String ((Ascii (true, false, true, false, false, false,
                 true, false)), (String ((Ascii (false, true, true, true,
                 false, true, true, false)), (String ((Ascii (true, true,
                 false, false, false, true, true, false)), (String ((Ascii
                 (false, true, false, false, true, false, true, false)),
                 (String ((Ascii (true, false, true, false, false, true,
                 true, false)), (String ((Ascii (true, true, false, false,
                 false, true, true, false)), (String ((Ascii (true, false,
                 false, true, false, true, true, false)), (String ((Ascii
                 (false, false, false, false, true, true, true, false)),
                 (String ((Ascii (true, false, false, true, false, true,
                 true, false)), (String ((Ascii (true, false, true, false,
                 false, true, true, false)), (String ((Ascii (false, true,
                 true, true, false, true, true, false)), (String ((Ascii
                 (false, false, true, false, true, true, true, false)),
                 EmptyString))))))))))))))))))))))))
            then Some EncEncRecipient
            else if eqb s (String ((Ascii (true, false, true, true, false,
                      false, true, false)), (String ((Ascii (true, false,
                      false, false, false, true, true, false)), (String
                      ((Ascii (true, true, false, false, false, true, true,
                      false)), (String ((Ascii (false, true, false, false,
                      true, false, true, false)), (String ((Ascii (true,
                      false, true, false, false, true, true, false)), (String
                      ((Ascii (true, true, false, false, false, true, true,
                      false)), (String ((Ascii (true, false, false, true,
                      false, true, true, false)), (String ((Ascii (false,
                      false, false, false, true, true, true, false)), (String
                      ((Ascii (true, false, false, true, false, true, true,
                      false)), (String ((Ascii (true, false, true, false,
                      false, true, true, false)), (String ((Ascii (false,
                      true, true, true, false, true, true, false)), (String
                      ((Ascii (false, false, true, false, true, true, true,
                      false)), EmptyString))))))))))))))))))))))))
                 then Some EncMacRecipient
                 else if eqb s (String ((Ascii (false, true, false, false,
                           true, false, true, false)), (String ((Ascii (true,
                           false, true, false, false, true, true, false)),
                           (String ((Ascii (true, true, false, false, false,
                           true, true, false)), (String ((Ascii (false, true,
                           false, false, true, false, true, false)), (String
                           ((Ascii (true, false, true, false, false, true,
                           true, false)), (String ((Ascii (true, true, false,
                           false, false, true, true, false)), (String ((Ascii
                           (true, false, false, true, false, true, true,
                           false)), (String ((Ascii (false, false, false,
                           false, true, true, true, false)), (String ((Ascii
                           (true, false, false, true, false, true, true,
                           false)), (String ((Ascii (true, false, true,
                           false, false, true, true, false)), (String ((Ascii
                           (false, true, true, true, false, true, true,
                           false)), (String ((Ascii (false, false, true,
                           false, true, true, true, false)),
                           EmptyString))))))))))))))))))))))))
                      then Some EncRecRecipient
                      else None

(** val show_cmp : comparison -> bytes **)

let show_cmp c =
  s2b
    (match c with
     | Eq ->
       String ((Ascii (true, false, true, false, false, false, true, false)),
         (String ((Ascii (true, false, false, false, true, true, true,
         false)), EmptyString)))
     | Lt ->
       String ((Ascii (false, false, true, true, false, false, true, false)),
         (String ((Ascii (false, false, true, false, true, true, true,
         false)), EmptyString)))
     | Gt ->
       String ((Ascii (true, true, true, false, false, false, true, false)),
         (String ((Ascii (false, false, true, false, true, true, true,
         false)), EmptyString))))

(** val closure1_of : value -> closure1 res **)

let closure1_of = function
| VArray l ->
  (match l with
   | [] -> bad
   | v0 :: l0 ->
     (match v0 with
      | VInt z ->
        (match z with
         | Z0 ->
           (match l0 with
            | [] -> bad
            | v1 :: l1 ->
              (match v1 with
               | VBytes k ->
                 (match l1 with
                  | [] -> Ok (fun x -> Some (app k x))
                  | _ :: _ -> bad)
               | _ -> bad))
         | Zpos p ->
           (match p with
            | Coq_xH ->
              (match l0 with
               | [] -> bad
               | v1 :: l1 ->
                 (match v1 with
                  | VBytes _ ->
                    (match l1 with
                     | [] -> Ok (fun _ -> None)
                     | _ :: _ -> bad)
                  | _ -> bad))
            | _ -> bad)
         | Zneg _ -> bad)
      | _ -> bad))
| _ -> bad

(** val len_byte : bytes -> byte **)

let len_byte l =
  n2b (N.of_nat (Datatypes.length l))

(** val closure2_of : value -> closure2 res **)

let closure2_of = function
| VArray l ->
  (match l with
   | [] -> bad
   | v0 :: l0 ->
     (match v0 with
      | VInt z ->
        (match z with
         | Z0 ->
           (match l0 with
            | [] -> bad
            | v1 :: l1 ->
              (match v1 with
               | VBytes k ->
                 (match l1 with
                  | [] ->
                    Ok (fun x y -> Some
                      (app k (app ((len_byte x) :: []) (app x y))))
                  | _ :: _ -> bad)
               | _ -> bad))
         | Zpos p ->
           (match p with
            | Coq_xH ->
              (match l0 with
               | [] -> bad
               | v1 :: l1 ->
                 (match v1 with
                  | VBytes _ ->
                    (match l1 with
                     | [] -> Ok (fun _ _ -> None)
                     | _ :: _ -> bad)
                  | _ -> bad))
            | _ -> bad)
         | Zneg _ -> bad)
      | _ -> bad))
| _ -> bad

(** val record2 : bytes -> bytes -> bytes **)

let record2 a b =
  app (show_hex a) (app sp (show_hex b))

(** val o_enc_ctx : value -> enc_context res **)

let o_enc_ctx = function
| VText t -> (match enc_ctx_of (b2s t) with
              | Some c -> Ok c
              | None -> bad)
| _ -> bad

(** val o_header_op : value -> header_op res **)

let o_header_op = function
| VArray l ->
  (match l with
   | [] -> bad
   | v0 :: args ->
     (match v0 with
      | VText n ->
        let n0 = b2s n in
        (match args with
         | [] -> bad
         | a :: l0 ->
           (match l0 with
            | [] ->
              if eqb n0 (String ((Ascii (true, true, false, true, false,
                   true, true, false)), (String ((Ascii (true, false, true,
                   false, false, true, true, false)), (String ((Ascii (true,
                   false, false, true, true, true, true, false)), (String
                   ((Ascii (true, true, true, true, true, false, true,
                   false)), (String ((Ascii (true, false, false, true, false,
                   true, true, false)), (String ((Ascii (false, false, true,
                   false, false, true, true, false)), EmptyString))))))))))))
              then bind (o_bytes a) (fun b -> Ok (HO_key_id b))
              else if eqb n0 (String ((Ascii (true, false, false, false,
                        false, true, true, false)), (String ((Ascii (false,
                        false, true, true, false, true, true, false)),
                        (String ((Ascii (true, true, true, false, false,
                        true, true, false)), (String ((Ascii (true, true,
                        true, true, false, true, true, false)), (String
                        ((Ascii (false, true, false, false, true, true, true,
                        false)), (String ((Ascii (true, false, false, true,
                        false, true, true, false)), (String ((Ascii (false,
                        false, true, false, true, true, true, false)),
                        (String ((Ascii (false, false, false, true, false,
                        true, true, false)), (String ((Ascii (true, false,
                        true, true, false, true, true, false)),
                        EmptyString))))))))))))))))))
                   then bind (o_int a) (fun z -> Ok (HO_algorithm z))
                   else if eqb n0 (String ((Ascii (true, false, false, false,
                             false, true, true, false)), (String ((Ascii
                             (false, false, true, false, false, true, true,
                             false)), (String ((Ascii (false, false, true,
                             false, false, true, true, false)), (String
                             ((Ascii (true, true, true, true, true, false,
                             true, false)), (String ((Ascii (true, true,
                             false, false, false, true, true, false)),
                             (String ((Ascii (false, true, false, false,
                             true, true, true, false)), (String ((Ascii
                             (true, false, false, true, false, true, true,
                             false)), (String ((Ascii (false, false, true,
                             false, true, true, true, false)), (String
                             ((Ascii (true, false, false, true, false, true,
                             true, false)), (String ((Ascii (true, true,
                             false, false, false, true, true, false)),
                             (String ((Ascii (true, false, false, false,
                             false, true, true, false)), (String ((Ascii
                             (false, false, true, true, false, true, true,
                             false)), EmptyString))))))))))))))))))))))))
                        then bind (o_int a) (fun z -> Ok (HO_add_critical z))
                        else if eqb n0 (String ((Ascii (true, false, false,
                                  false, false, true, true, false)), (String
                                  ((Ascii (false, false, true, false, false,
                                  true, true, false)), (String ((Ascii
                                  (false, false, true, false, false, true,
                                  true, false)), (String ((Ascii (true, true,
                                  true, true, true, false, true, false)),
                                  (String ((Ascii (true, true, false, false,
                                  false, true, true, false)), (String ((Ascii
                                  (false, true, false, false, true, true,
                                  true, false)), (String ((Ascii (true,
                                  false, false, true, false, true, true,
                                  false)), (String ((Ascii (false, false,
                                  true, false, true, true, true, false)),
                                  (String ((Ascii (true, false, false, true,
                                  false, true, true, false)), (String ((Ascii
                                  (true, true, false, false, false, true,
                                  true, false)), (String ((Ascii (true,
                                  false, false, false, false, true, true,
                                  false)), (String ((Ascii (false, false,
                                  true, true, false, true, true, false)),
                                  (String ((Ascii (true, true, true, true,
                                  true, false, true, false)), (String ((Ascii
                                  (false, false, true, true, false, true,
                                  true, false)), (String ((Ascii (true,
                                  false, false, false, false, true, true,
                                  false)), (String ((Ascii (false, true,
                                  false, false, false, true, true, false)),
                                  (String ((Ascii (true, false, true, false,
                                  false, true, true, false)), (String ((Ascii
                                  (false, false, true, true, false, true,
                                  true, false)),
                                  EmptyString))))))))))))))))))))))))))))))))))))
                             then bind (o_reg a) (fun l1 -> Ok
                                    (HO_add_critical_label l1))
                             else if eqb n0 (String ((Ascii (true, true,
                                       false, false, false, true, true,
                                       false)), (String ((Ascii (true, true,
                                       true, true, false, true, true,
                                       false)), (String ((Ascii (false, true,
                                       true, true, false, true, true,
                                       false)), (String ((Ascii (false,
                                       false, true, false, true, true, true,
                                       false)), (String ((Ascii (true, false,
                                       true, false, false, true, true,
                                       false)), (String ((Ascii (false, true,
                                       true, true, false, true, true,
                                       false)), (String ((Ascii (false,
                                       false, true, false, true, true, true,
                                       false)), (String ((Ascii (true, true,
                                       true, true, true, false, true,
                                       false)), (String ((Ascii (false, true,
                                       true, false, false, true, true,
                                       false)), (String ((Ascii (true, true,
                                       true, true, false, true, true,
                                       false)), (String ((Ascii (false, true,
                                       false, false, true, true, true,
                                       false)), (String ((Ascii (true, false,
                                       true, true, false, true, true,
                                       false)), (String ((Ascii (true, false,
                                       false, false, false, true, true,
                                       false)), (String ((Ascii (false,
                                       false, true, false, true, true, true,
                                       false)),
                                       EmptyString))))))))))))))))))))))))))))
                                  then bind (o_int a) (fun z -> Ok
                                         (HO_content_format z))
                                  else if eqb n0 (String ((Ascii (true, true,
                                            false, false, false, true, true,
                                            false)), (String ((Ascii (true,
                                            true, true, true, false, true,
                                            true, false)), (String ((Ascii
                                            (false, true, true, true, false,
                                            true, true, false)), (String
                                            ((Ascii (false, false, true,
                                            false, true, true, true, false)),
                                            (String ((Ascii (true, false,
                                            true, false, false, true, true,
                                            false)), (String ((Ascii (false,
                                            true, true, true, false, true,
                                            true, false)), (String ((Ascii
                                            (false, false, true, false, true,
                                            true, true, false)), (String
                                            ((Ascii (true, true, true, true,
                                            true, false, true, false)),
                                            (String ((Ascii (false, false,
                                            true, false, true, true, true,
                                            false)), (String ((Ascii (true,
                                            false, false, true, true, true,
                                            true, false)), (String ((Ascii
                                            (false, false, false, false,
                                            true, true, true, false)),
                                            (String ((Ascii (true, false,
                                            true, false, false, true, true,
                                            false)),
                                            EmptyString))))))))))))))))))))))))
                                       then bind (o_text a) (fun t -> Ok
                                              (HO_content_type t))
                                       else if eqb n0 (String ((Ascii (true,
                                                 false, false, true, false,
                                                 true, true, false)), (String
                                                 ((Ascii (false, true, true,
                                                 false, true, true, true,
                                                 false)), EmptyString))))
                                            then bind (o_bytes a) (fun b ->
                                                   Ok (HO_iv b))
                                            else if eqb n0 (String ((Ascii
                                                      (false, false, false,
                                                      false, true, true,
                                                      true, false)), (String
                                                      ((Ascii (true, false,
                                                      false, false, false,
                                                      true, true, false)),
                                                      (String ((Ascii (false,
                                                      true, false, false,
                                                      true, true, true,
                                                      false)), (String
                                                      ((Ascii (false, false,
                                                      true, false, true,
                                                      true, true, false)),
                                                      (String ((Ascii (true,
                                                      false, false, true,
                                                      false, true, true,
                                                      false)), (String
                                                      ((Ascii (true, false,
                                                      false, false, false,
                                                      true, true, false)),
                                                      (String ((Ascii (false,
                                                      false, true, true,
                                                      false, true, true,
                                                      false)), (String
                                                      ((Ascii (true, true,
                                                      true, true, true,
                                                      false, true, false)),
                                                      (String ((Ascii (true,
                                                      false, false, true,
                                                      false, true, true,
                                                      false)), (String
                                                      ((Ascii (false, true,
                                                      true, false, true,
                                                      true, true, false)),
                                                      EmptyString))))))))))))))))))))
                                                 then bind (o_bytes a)
                                                        (fun b -> Ok
                                                        (HO_partial_iv b))
                                                 else if eqb n0 (String
                                                           ((Ascii (true,
                                                           false, false,
                                                           false, false,
                                                           true, true,
                                                           false)), (String
                                                           ((Ascii (false,
                                                           false, true,
                                                           false, false,
                                                           true, true,
                                                           false)), (String
                                                           ((Ascii (false,
                                                           false, true,
                                                           false, false,
                                                           true, true,
                                                           false)), (String
                                                           ((Ascii (true,
                                                           true, true, true,
                                                           true, false, true,
                                                           false)), (String
                                                           ((Ascii (true,
                                                           true, false,
                                                           false, false,
                                                           true, true,
                                                           false)), (String
                                                           ((Ascii (true,
                                                           true, true, true,
                                                           false, true, true,
                                                           false)), (String
                                                           ((Ascii (true,
                                                           false, true,
                                                           false, true, true,
                                                           true, false)),
                                                           (String ((Ascii
                                                           (false, true,
                                                           true, true, false,
                                                           true, true,
                                                           false)), (String
                                                           ((Ascii (false,
                                                           false, true,
                                                           false, true, true,
                                                           true, false)),
                                                           (String ((Ascii
                                                           (true, false,
                                                           true, false,
                                                           false, true, true,
                                                           false)), (String
                                                           ((Ascii (false,
                                                           true, false,
                                                           false, true, true,
                                                           true, false)),
                                                           (String ((Ascii
                                                           (true, true, true,
                                                           true, true, false,
                                                           true, false)),
                                                           (String ((Ascii
                                                           (true, true,
                                                           false, false,
                                                           true, true, true,
                                                           false)), (String
                                                           ((Ascii (true,
                                                           false, false,
                                                           true, false, true,
                                                           true, false)),
                                                           (String ((Ascii
                                                           (true, true, true,
                                                           false, false,
                                                           true, true,
                                                           false)), (String
                                                           ((Ascii (false,
                                                           true, true, true,
                                                           false, true, true,
                                                           false)), (String
                                                           ((Ascii (true,
                                                           false, false,
                                                           false, false,
                                                           true, true,
                                                           false)), (String
                                                           ((Ascii (false,
                                                           false, true,
                                                           false, true, true,
                                                           true, false)),
                                                           (String ((Ascii
                                                           (true, false,
                                                           true, false, true,
                                                           true, true,
                                                           false)), (String
                                                           ((Ascii (false,
                                                           true, false,
                                                           false, true, true,
                                                           true, false)),
                                                           (String ((Ascii
                                                           (true, false,
                                                           true, false,
                                                           false, true, true,
                                                           false)),
                                                           EmptyString))))))))))))))))))))))))))))))))))))))))))
                                                      then bind
                                                             (o_signature a)
                                                             (fun s -> Ok
                                                             (HO_add_counter_signature
                                                             s))
                                                      else bad
            | x :: l1 ->
              (match l1 with
               | [] ->
                 if eqb n0 (String ((Ascii (false, true, true, false, true,
                      true, true, false)), (String ((Ascii (true, false,
                      false, false, false, true, true, false)), (String
                      ((Ascii (false, false, true, true, false, true, true,
                      false)), (String ((Ascii (true, false, true, false,
                      true, true, true, false)), (String ((Ascii (true,
                      false, true, false, false, true, true, false)),
                      EmptyString))))))))))
                 then bind (o_int a) (fun z -> Ok (HO_value (z, x)))
                 else if eqb n0 (String ((Ascii (false, false, true, false,
                           true, true, true, false)), (String ((Ascii (true,
                           false, true, false, false, true, true, false)),
                           (String ((Ascii (false, false, false, true, true,
                           true, true, false)), (String ((Ascii (false,
                           false, true, false, true, true, true, false)),
                           (String ((Ascii (true, true, true, true, true,
                           false, true, false)), (String ((Ascii (false,
                           true, true, false, true, true, true, false)),
                           (String ((Ascii (true, false, false, false, false,
                           true, true, false)), (String ((Ascii (false,
                           false, true, true, false, true, true, false)),
                           (String ((Ascii (true, false, true, false, true,
                           true, true, false)), (String ((Ascii (true, false,
                           true, false, false, true, true, false)),
                           EmptyString))))))))))))))))))))
                      then bind (o_text a) (fun t -> Ok (HO_text_value (t,
                             x)))
                      else bad
               | _ :: _ -> bad)))
      | _ -> bad))
| _ -> bad

(** val o_signature_op : value -> signature_op res **)

let o_signature_op = function
| VArray l ->
  (match l with
   | [] -> bad
   | v0 :: l0 ->
     (match v0 with
      | VText n ->
        (match l0 with
         | [] -> bad
         | a :: l1 ->
           (match l1 with
            | [] ->
              let n0 = b2s n in
              if eqb n0 (String ((Ascii (false, false, false, false, true,
                   true, true, false)), (String ((Ascii (false, true, false,
                   false, true, true, true, false)), (String ((Ascii (true,
                   true, true, true, false, true, true, false)), (String
                   ((Ascii (false, false, true, false, true, true, true,
                   false)), (String ((Ascii (true, false, true, false, false,
                   true, true, false)), (String ((Ascii (true, true, false,
                   false, false, true, true, false)), (String ((Ascii (false,
                   false, true, false, true, true, true, false)), (String
                   ((Ascii (true, false, true, false, false, true, true,
                   false)), (String ((Ascii (false, false, true, false,
                   false, true, true, false)), EmptyString))))))))))))))))))
              then bind (o_header a) (fun h -> Ok (SO_protected h))
              else if eqb n0 (String ((Ascii (true, false, true, false, true,
                        true, true, false)), (String ((Ascii (false, true,
                        true, true, false, true, true, false)), (String
                        ((Ascii (false, false, false, false, true, true,
                        true, false)), (String ((Ascii (false, true, false,
                        false, true, true, true, false)), (String ((Ascii
                        (true, true, true, true, false, true, true, false)),
                        (String ((Ascii (false, false, true, false, true,
                        true, true, false)), (String ((Ascii (true, false,
                        true, false, false, true, true, false)), (String
                        ((Ascii (true, true, false, false, false, true, true,
                        false)), (String ((Ascii (false, false, true, false,
                        true, true, true, false)), (String ((Ascii (true,
                        false, true, false, false, true, true, false)),
                        (String ((Ascii (false, false, true, false, false,
                        true, true, false)), EmptyString))))))))))))))))))))))
                   then bind (o_header a) (fun h -> Ok (SO_unprotected h))
                   else if eqb n0 (String ((Ascii (true, true, false, false,
                             true, true, true, false)), (String ((Ascii
                             (true, false, false, true, false, true, true,
                             false)), (String ((Ascii (true, true, true,
                             false, false, true, true, false)), (String
                             ((Ascii (false, true, true, true, false, true,
                             true, false)), (String ((Ascii (true, false,
                             false, false, false, true, true, false)),
                             (String ((Ascii (false, false, true, false,
                             true, true, true, false)), (String ((Ascii
                             (true, false, true, false, true, true, true,
                             false)), (String ((Ascii (false, true, false,
                             false, true, true, true, false)), (String
                             ((Ascii (true, false, true, false, false, true,
                             true, false)), EmptyString))))))))))))))))))
                        then bind (o_bytes a) (fun b -> Ok (SO_signature b))
                        else bad
            | _ :: _ -> bad))
      | _ -> bad))
| _ -> bad

(** val o_sign1_op : value -> sign1_op res **)

let o_sign1_op = function
| VArray l ->
  (match l with
   | [] -> bad
   | v0 :: args ->
     (match v0 with
      | VText n ->
        let n0 = b2s n in
        (match args with
         | [] -> bad
         | p :: l0 ->
           (match l0 with
            | [] ->
              if eqb n0 (String ((Ascii (false, false, false, false, true,
                   true, true, false)), (String ((Ascii (false, true, false,
                   false, true, true, true, false)), (String ((Ascii (true,
                   true, true, true, false, true, true, false)), (String
                   ((Ascii (false, false, true, false, true, true, true,
                   false)), (String ((Ascii (true, false, true, false, false,
                   true, true, false)), (String ((Ascii (true, true, false,
                   false, false, true, true, false)), (String ((Ascii (false,
                   false, true, false, true, true, true, false)), (String
                   ((Ascii (true, false, true, false, false, true, true,
                   false)), (String ((Ascii (false, false, true, false,
                   false, true, true, false)), EmptyString))))))))))))))))))
              then bind (o_header p) (fun h -> Ok (S1_protected h))
              else if eqb n0 (String ((Ascii (true, false, true, false, true,
                        true, true, false)), (String ((Ascii (false, true,
                        true, true, false, true, true, false)), (String
                        ((Ascii (false, false, false, false, true, true,
                        true, false)), (String ((Ascii (false, true, false,
                        false, true, true, true, false)), (String ((Ascii
                        (true, true, true, true, false, true, true, false)),
                        (String ((Ascii (false, false, true, false, true,
                        true, true, false)), (String ((Ascii (true, false,
                        true, false, false, true, true, false)), (String
                        ((Ascii (true, true, false, false, false, true, true,
                        false)), (String ((Ascii (false, false, true, false,
                        true, true, true, false)), (String ((Ascii (true,
                        false, true, false, false, true, true, false)),
                        (String ((Ascii (false, false, true, false, false,
                        true, true, false)), EmptyString))))))))))))))))))))))
                   then bind (o_header p) (fun h -> Ok (S1_unprotected h))
                   else if eqb n0 (String ((Ascii (true, true, false, false,
                             true, true, true, false)), (String ((Ascii
                             (true, false, false, true, false, true, true,
                             false)), (String ((Ascii (true, true, true,
                             false, false, true, true, false)), (String
                             ((Ascii (false, true, true, true, false, true,
                             true, false)), (String ((Ascii (true, false,
                             false, false, false, true, true, false)),
                             (String ((Ascii (false, false, true, false,
                             true, true, true, false)), (String ((Ascii
                             (true, false, true, false, true, true, true,
                             false)), (String ((Ascii (false, true, false,
                             false, true, true, true, false)), (String
                             ((Ascii (true, false, true, false, false, true,
                             true, false)), EmptyString))))))))))))))))))
                        then bind (o_bytes p) (fun b -> Ok (S1_signature b))
                        else if eqb n0 (String ((Ascii (false, false, false,
                                  false, true, true, true, false)), (String
                                  ((Ascii (true, false, false, false, false,
                                  true, true, false)), (String ((Ascii (true,
                                  false, false, true, true, true, true,
                                  false)), (String ((Ascii (false, false,
                                  true, true, false, true, true, false)),
                                  (String ((Ascii (true, true, true, true,
                                  false, true, true, false)), (String ((Ascii
                                  (true, false, false, false, false, true,
                                  true, false)), (String ((Ascii (false,
                                  false, true, false, false, true, true,
                                  false)), EmptyString))))))))))))))
                             then bind (o_bytes p) (fun b -> Ok (S1_payload
                                    b))
                             else bad
            | a :: l1 ->
              (match l1 with
               | [] ->
                 if eqb n0 (String ((Ascii (true, true, false, false, false,
                      true, true, false)), (String ((Ascii (false, true,
                      false, false, true, true, true, false)), (String
                      ((Ascii (true, false, true, false, false, true, true,
                      false)), (String ((Ascii (true, false, false, false,
                      false, true, true, false)), (String ((Ascii (false,
                      false, true, false, true, true, true, false)), (String
                      ((Ascii (true, false, true, false, false, true, true,
                      false)), (String ((Ascii (true, true, true, true, true,
                      false, true, false)), (String ((Ascii (true, true,
                      false, false, true, true, true, false)), (String
                      ((Ascii (true, false, false, true, false, true, true,
                      false)), (String ((Ascii (true, true, true, false,
                      false, true, true, false)), (String ((Ascii (false,
                      true, true, true, false, true, true, false)), (String
                      ((Ascii (true, false, false, false, false, true, true,
                      false)), (String ((Ascii (false, false, true, false,
                      true, true, true, false)), (String ((Ascii (true,
                      false, true, false, true, true, true, false)), (String
                      ((Ascii (false, true, false, false, true, true, true,
                      false)), (String ((Ascii (true, false, true, false,
                      false, true, true, false)),
                      EmptyString))))))))))))))))))))))))))))))))
                 then bind (o_bytes p) (fun aad ->
                        bind (closure1_of a) (fun c -> Ok
                          (S1_create_signature (aad, c))))
                 else if eqb n0 (String ((Ascii (false, false, true, false,
                           true, true, true, false)), (String ((Ascii (false,
                           true, false, false, true, true, true, false)),
                           (String ((Ascii (true, false, false, true, true,
                           true, true, false)), (String ((Ascii (true, true,
                           true, true, true, false, true, false)), (String
                           ((Ascii (true, true, false, false, false, true,
                           true, false)), (String ((Ascii (false, true,
                           false, false, true, true, true, false)), (String
                           ((Ascii (true, false, true, false, false, true,
                           true, false)), (String ((Ascii (true, false,
                           false, false, false, true, true, false)), (String
                           ((Ascii (false, false, true, false, true, true,
                           true, false)), (String ((Ascii (true, false, true,
                           false, false, true, true, false)), (String ((Ascii
                           (true, true, true, true, true, false, true,
                           false)), (String ((Ascii (true, true, false,
                           false, true, true, true, false)), (String ((Ascii
                           (true, false, false, true, false, true, true,
                           false)), (String ((Ascii (true, true, true, false,
                           false, true, true, false)), (String ((Ascii
                           (false, true, true, true, false, true, true,
                           false)), (String ((Ascii (true, false, false,
                           false, false, true, true, false)), (String ((Ascii
                           (false, false, true, false, true, true, true,
                           false)), (String ((Ascii (true, false, true,
                           false, true, true, true, false)), (String ((Ascii
                           (false, true, false, false, true, true, true,
                           false)), (String ((Ascii (true, false, true,
                           false, false, true, true, false)),
                           EmptyString))))))))))))))))))))))))))))))))))))))))
                      then bind (o_bytes p) (fun aad ->
                             bind (closure1_of a) (fun c -> Ok
                               (S1_try_create_signature (aad, c))))
                      else bad
               | f :: l2 ->
                 (match l2 with
                  | [] ->
                    if eqb n0 (String ((Ascii (true, true, false, false,
                         false, true, true, false)), (String ((Ascii (false,
                         true, false, false, true, true, true, false)),
                         (String ((Ascii (true, false, true, false, false,
                         true, true, false)), (String ((Ascii (true, false,
                         false, false, false, true, true, false)), (String
                         ((Ascii (false, false, true, false, true, true,
                         true, false)), (String ((Ascii (true, false, true,
                         false, false, true, true, false)), (String ((Ascii
                         (true, true, true, true, true, false, true, false)),
                         (String ((Ascii (false, false, true, false, false,
                         true, true, false)), (String ((Ascii (true, false,
                         true, false, false, true, true, false)), (String
                         ((Ascii (false, false, true, false, true, true,
                         true, false)), (String ((Ascii (true, false, false,
                         false, false, true, true, false)), (String ((Ascii
                         (true, true, false, false, false, true, true,
                         false)), (String ((Ascii (false, false, false, true,
                         false, true, true, false)), (String ((Ascii (true,
                         false, true, false, false, true, true, false)),
                         (String ((Ascii (false, false, true, false, false,
                         true, true, false)), (String ((Ascii (true, true,
                         true, true, true, false, true, false)), (String
                         ((Ascii (true, true, false, false, true, true, true,
                         false)), (String ((Ascii (true, false, false, true,
                         false, true, true, false)), (String ((Ascii (true,
                         true, true, false, false, true, true, false)),
                         (String ((Ascii (false, true, true, true, false,
                         true, true, false)), (String ((Ascii (true, false,
                         false, false, false, true, true, false)), (String
                         ((Ascii (false, false, true, false, true, true,
                         true, false)), (String ((Ascii (true, false, true,
                         false, true, true, true, false)), (String ((Ascii
                         (false, true, false, false, true, true, true,
                         false)), (String ((Ascii (true, false, true, false,
                         false, true, true, false)),
                         EmptyString))))))))))))))))))))))))))))))))))))))))))))))))))
                    then bind (o_bytes p) (fun pl ->
                           bind (o_bytes a) (fun aad ->
                             bind (closure1_of f) (fun c -> Ok
                               (S1_create_detached_signature (pl, aad, c)))))
                    else if eqb n0 (String ((Ascii (false, false, true,
                              false, true, true, true, false)), (String
                              ((Ascii (false, true, false, false, true, true,
                              true, false)), (String ((Ascii (true, false,
                              false, true, true, true, true, false)), (String
                              ((Ascii (true, true, true, true, true, false,
                              true, false)), (String ((Ascii (true, true,
                              false, false, false, true, true, false)),
                              (String ((Ascii (false, true, false, false,
                              true, true, true, false)), (String ((Ascii
                              (true, false, true, false, false, true, true,
                              false)), (String ((Ascii (true, false, false,
                              false, false, true, true, false)), (String
                              ((Ascii (false, false, true, false, true, true,
                              true, false)), (String ((Ascii (true, false,
                              true, false, false, true, true, false)),
                              (String ((Ascii (true, true, true, true, true,
                              false, true, false)), (String ((Ascii (false,
                              false, true, false, false, true, true, false)),
                              (String ((Ascii (true, false, true, false,
                              false, true, true, false)), (String ((Ascii
                              (false, false, true, false, true, true, true,
                              false)), (String ((Ascii (true, false, false,
                              false, false, true, true, false)), (String
                              ((Ascii (true, true, false, false, false, true,
                              true, false)), (String ((Ascii (false, false,
                              false, true, false, true, true, false)),
                              (String ((Ascii (true, false, true, false,
                              false, true, true, false)), (String ((Ascii
                              (false, false, true, false, false, true, true,
                              false)), (String ((Ascii (true, true, true,
                              true, true, false, true, false)), (String
                              ((Ascii (true, true, false, false, true, true,
                              true, false)), (String ((Ascii (true, false,
                              false, true, false, true, true, false)),
                              (String ((Ascii (true, true, true, false,
                              false, true, true, false)), (String ((Ascii
                              (false, true, true, true, false, true, true,
                              false)), (String ((Ascii (true, false, false,
                              false, false, true, true, false)), (String
                              ((Ascii (false, false, true, false, true, true,
                              true, false)), (String ((Ascii (true, false,
                              true, false, true, true, true, false)), (String
                              ((Ascii (false, true, false, false, true, true,
                              true, false)), (String ((Ascii (true, false,
                              true, false, false, true, true, false)),
                              EmptyString))))))))))))))))))))))))))))))))))))))))))))))))))))))))))
                         then bind (o_bytes p) (fun pl ->
                                bind (o_bytes a) (fun aad ->
                                  bind (closure1_of f) (fun c -> Ok
                                    (S1_try_create_detached_signature (pl,
                                    aad, c)))))
                         else bad
                  | _ :: _ -> bad))))
      | _ -> bad))
| _ -> bad

(** val o_sign_op : value -> sign_op res **)

let o_sign_op = function
| VArray l ->
  (match l with
   | [] -> bad
   | v0 :: args ->
     (match v0 with
      | VText n ->
        let n0 = b2s n in
        (match args with
         | [] -> bad
         | s :: l0 ->
           (match l0 with
            | [] ->
              if eqb n0 (String ((Ascii (false, false, false, false, true,
                   true, true, false)), (String ((Ascii (false, true, false,
                   false, true, true, true, false)), (String ((Ascii (true,
                   true, true, true, false, true, true, false)), (String
                   ((Ascii (false, false, true, false, true, true, true,
                   false)), (String ((Ascii (true, false, true, false, false,
                   true, true, false)), (String ((Ascii (true, true, false,
                   false, false, true, true, false)), (String ((Ascii (false,
                   false, true, false, true, true, true, false)), (String
                   ((Ascii (true, false, true, false, false, true, true,
                   false)), (String ((Ascii (false, false, true, false,
                   false, true, true, false)), EmptyString))))))))))))))))))
              then bind (o_header s) (fun h -> Ok (SN_protected h))
              else if eqb n0 (String ((Ascii (true, false, true, false, true,
                        true, true, false)), (String ((Ascii (false, true,
                        true, true, false, true, true, false)), (String
                        ((Ascii (false, false, false, false, true, true,
                        true, false)), (String ((Ascii (false, true, false,
                        false, true, true, true, false)), (String ((Ascii
                        (true, true, true, true, false, true, true, false)),
                        (String ((Ascii (false, false, true, false, true,
                        true, true, false)), (String ((Ascii (true, false,
                        true, false, false, true, true, false)), (String
                        ((Ascii (true, true, false, false, false, true, true,
                        false)), (String ((Ascii (false, false, true, false,
                        true, true, true, false)), (String ((Ascii (true,
                        false, true, false, false, true, true, false)),
                        (String ((Ascii (false, false, true, false, false,
                        true, true, false)), EmptyString))))))))))))))))))))))
                   then bind (o_header s) (fun h -> Ok (SN_unprotected h))
                   else if eqb n0 (String ((Ascii (false, false, false,
                             false, true, true, true, false)), (String
                             ((Ascii (true, false, false, false, false, true,
                             true, false)), (String ((Ascii (true, false,
                             false, true, true, true, true, false)), (String
                             ((Ascii (false, false, true, true, false, true,
                             true, false)), (String ((Ascii (true, true,
                             true, true, false, true, true, false)), (String
                             ((Ascii (true, false, false, false, false, true,
                             true, false)), (String ((Ascii (false, false,
                             true, false, false, true, true, false)),
                             EmptyString))))))))))))))
                        then bind (o_bytes s) (fun b -> Ok (SN_payload b))
                        else if eqb n0 (String ((Ascii (true, false, false,
                                  false, false, true, true, false)), (String
                                  ((Ascii (false, false, true, false, false,
                                  true, true, false)), (String ((Ascii
                                  (false, false, true, false, false, true,
                                  true, false)), (String ((Ascii (true, true,
                                  true, true, true, false, true, false)),
                                  (String ((Ascii (true, true, false, false,
                                  true, true, true, false)), (String ((Ascii
                                  (true, false, false, true, false, true,
                                  true, false)), (String ((Ascii (true, true,
                                  true, false, false, true, true, false)),
                                  (String ((Ascii (false, true, true, true,
                                  false, true, true, false)), (String ((Ascii
                                  (true, false, false, false, false, true,
                                  true, false)), (String ((Ascii (false,
                                  false, true, false, true, true, true,
                                  false)), (String ((Ascii (true, false,
                                  true, false, true, true, true, false)),
                                  (String ((Ascii (false, true, false, false,
                                  true, true, true, false)), (String ((Ascii
                                  (true, false, true, false, false, true,
                                  true, false)),
                                  EmptyString))))))))))))))))))))))))))
                             then bind (o_signature s) (fun s0 -> Ok
                                    (SN_add_signature s0))
                             else bad
            | p :: l1 ->
              (match l1 with
               | [] -> bad
               | a :: l2 ->
                 (match l2 with
                  | [] ->
                    if eqb n0 (String ((Ascii (true, false, false, false,
                         false, true, true, false)), (String ((Ascii (false,
                         false, true, false, false, true, true, false)),
                         (String ((Ascii (false, false, true, false, false,
                         true, true, false)), (String ((Ascii (true, true,
                         true, true, true, false, true, false)), (String
                         ((Ascii (true, true, false, false, false, true,
                         true, false)), (String ((Ascii (false, true, false,
                         false, true, true, true, false)), (String ((Ascii
                         (true, false, true, false, false, true, true,
                         false)), (String ((Ascii (true, false, false, false,
                         false, true, true, false)), (String ((Ascii (false,
                         false, true, false, true, true, true, false)),
                         (String ((Ascii (true, false, true, false, false,
                         true, true, false)), (String ((Ascii (false, false,
                         true, false, false, true, true, false)), (String
                         ((Ascii (true, true, true, true, true, false, true,
                         false)), (String ((Ascii (true, true, false, false,
                         true, true, true, false)), (String ((Ascii (true,
                         false, false, true, false, true, true, false)),
                         (String ((Ascii (true, true, true, false, false,
                         true, true, false)), (String ((Ascii (false, true,
                         true, true, false, true, true, false)), (String
                         ((Ascii (true, false, false, false, false, true,
                         true, false)), (String ((Ascii (false, false, true,
                         false, true, true, true, false)), (String ((Ascii
                         (true, false, true, false, true, true, true,
                         false)), (String ((Ascii (false, true, false, false,
                         true, true, true, false)), (String ((Ascii (true,
                         false, true, false, false, true, true, false)),
                         EmptyString))))))))))))))))))))))))))))))))))))))))))
                    then bind (o_signature s) (fun s' ->
                           bind (o_bytes p) (fun aad ->
                             bind (closure1_of a) (fun c -> Ok
                               (SN_add_created_signature (s', aad, c)))))
                    else if eqb n0 (String ((Ascii (false, false, true,
                              false, true, true, true, false)), (String
                              ((Ascii (false, true, false, false, true, true,
                              true, false)), (String ((Ascii (true, false,
                              false, true, true, true, true, false)), (String
                              ((Ascii (true, true, true, true, true, false,
                              true, false)), (String ((Ascii (true, false,
                              false, false, false, true, true, false)),
                              (String ((Ascii (false, false, true, false,
                              false, true, true, false)), (String ((Ascii
                              (false, false, true, false, false, true, true,
                              false)), (String ((Ascii (true, true, true,
                              true, true, false, true, false)), (String
                              ((Ascii (true, true, false, false, false, true,
                              true, false)), (String ((Ascii (false, true,
                              false, false, true, true, true, false)),
                              (String ((Ascii (true, false, true, false,
                              false, true, true, false)), (String ((Ascii
                              (true, false, false, false, false, true, true,
                              false)), (String ((Ascii (false, false, true,
                              false, true, true, true, false)), (String
                              ((Ascii (true, false, true, false, false, true,
                              true, false)), (String ((Ascii (false, false,
                              true, false, false, true, true, false)),
                              (String ((Ascii (true, true, true, true, true,
                              false, true, false)), (String ((Ascii (true,
                              true, false, false, true, true, true, false)),
                              (String ((Ascii (true, false, false, true,
                              false, true, true, false)), (String ((Ascii
                              (true, true, true, false, false, true, true,
                              false)), (String ((Ascii (false, true, true,
                              true, false, true, true, false)), (String
                              ((Ascii (true, false, false, false, false,
                              true, true, false)), (String ((Ascii (false,
                              false, true, false, true, true, true, false)),
                              (String ((Ascii (true, false, true, false,
                              true, true, true, false)), (String ((Ascii
                              (false, true, false, false, true, true, true,
                              false)), (String ((Ascii (true, false, true,
                              false, false, true, true, false)),
                              EmptyString))))))))))))))))))))))))))))))))))))))))))))))))))
                         then bind (o_signature s) (fun s' ->
                                bind (o_bytes p) (fun aad ->
                                  bind (closure1_of a) (fun c -> Ok
                                    (SN_try_add_created_signature (s', aad,
                                    c)))))
                         else bad
                  | f :: l3 ->
                    (match l3 with
                     | [] ->
                       if eqb n0 (String ((Ascii (true, false, false, false,
                            false, true, true, false)), (String ((Ascii
                            (false, false, true, false, false, true, true,
                            false)), (String ((Ascii (false, false, true,
                            false, false, true, true, false)), (String
                            ((Ascii (true, true, true, true, true, false,
                            true, false)), (String ((Ascii (false, false,
                            true, false, false, true, true, false)), (String
                            ((Ascii (true, false, true, false, false, true,
                            true, false)), (String ((Ascii (false, false,
                            true, false, true, true, true, false)), (String
                            ((Ascii (true, false, false, false, false, true,
                            true, false)), (String ((Ascii (true, true,
                            false, false, false, true, true, false)), (String
                            ((Ascii (false, false, false, true, false, true,
                            true, false)), (String ((Ascii (true, false,
                            true, false, false, true, true, false)), (String
                            ((Ascii (false, false, true, false, false, true,
                            true, false)), (String ((Ascii (true, true, true,
                            true, true, false, true, false)), (String ((Ascii
                            (true, true, false, false, true, true, true,
                            false)), (String ((Ascii (true, false, false,
                            true, false, true, true, false)), (String ((Ascii
                            (true, true, true, false, false, true, true,
                            false)), (String ((Ascii (false, true, true,
                            true, false, true, true, false)), (String ((Ascii
                            (true, false, false, false, false, true, true,
                            false)), (String ((Ascii (false, false, true,
                            false, true, true, true, false)), (String ((Ascii
                            (true, false, true, false, true, true, true,
                            false)), (String ((Ascii (false, true, false,
                            false, true, true, true, false)), (String ((Ascii
                            (true, false, true, false, false, true, true,
                            false)),
                            EmptyString))))))))))))))))))))))))))))))))))))))))))))
                       then bind (o_signature s) (fun s' ->
                              bind (o_bytes p) (fun pl ->
                                bind (o_bytes a) (fun aad ->
                                  bind (closure1_of f) (fun c -> Ok
                                    (SN_add_detached_signature (s', pl, aad,
                                    c))))))
                       else if eqb n0 (String ((Ascii (false, false, true,
                                 false, true, true, true, false)), (String
                                 ((Ascii (false, true, false, false, true,
                                 true, true, false)), (String ((Ascii (true,
                                 false, false, true, true, true, true,
                                 false)), (String ((Ascii (true, true, true,
                                 true, true, false, true, false)), (String
                                 ((Ascii (true, false, false, false, false,
                                 true, true, false)), (String ((Ascii (false,
                                 false, true, false, false, true, true,
                                 false)), (String ((Ascii (false, false,
                                 true, false, false, true, true, false)),
                                 (String ((Ascii (true, true, true, true,
                                 true, false, true, false)), (String ((Ascii
                                 (false, false, true, false, false, true,
                                 true, false)), (String ((Ascii (true, false,
                                 true, false, false, true, true, false)),
                                 (String ((Ascii (false, false, true, false,
                                 true, true, true, false)), (String ((Ascii
                                 (true, false, false, false, false, true,
                                 true, false)), (String ((Ascii (true, true,
                                 false, false, false, true, true, false)),
                                 (String ((Ascii (false, false, false, true,
                                 false, true, true, false)), (String ((Ascii
                                 (true, false, true, false, false, true,
                                 true, false)), (String ((Ascii (false,
                                 false, true, false, false, true, true,
                                 false)), (String ((Ascii (true, true, true,
                                 true, true, false, true, false)), (String
                                 ((Ascii (true, true, false, false, true,
                                 true, true, false)), (String ((Ascii (true,
                                 false, false, true, false, true, true,
                                 false)), (String ((Ascii (true, true, true,
                                 false, false, true, true, false)), (String
                                 ((Ascii (false, true, true, true, false,
                                 true, true, false)), (String ((Ascii (true,
                                 false, false, false, false, true, true,
                                 false)), (String ((Ascii (false, false,
                                 true, false, true, true, true, false)),
                                 (String ((Ascii (true, false, true, false,
                                 true, true, true, false)), (String ((Ascii
                                 (false, true, false, false, true, true,
                                 true, false)), (String ((Ascii (true, false,
                                 true, false, false, true, true, false)),
                                 EmptyString))))))))))))))))))))))))))))))))))))))))))))))))))))
                            then bind (o_signature s) (fun s' ->
                                   bind (o_bytes p) (fun pl ->
                                     bind (o_bytes a) (fun aad ->
                                       bind (closure1_of f) (fun c -> Ok
                                         (SN_try_add_detached_signature (s',
                                         pl, aad, c))))))
                            else bad
                     | _ :: _ -> bad)))))
      | _ -> bad))
| _ -> bad

(** val o_mac0_op : value -> mac0_op res **)

let o_mac0_op = function
| VArray l ->
  (match l with
   | [] -> bad
   | v0 :: args ->
     (match v0 with
      | VText n ->
        let n0 = b2s n in
        (match args with
         | [] -> bad
         | a :: l0 ->
           (match l0 with
            | [] ->
              if eqb n0 (String ((Ascii (false, false, false, false, true,
                   true, true, false)), (String ((Ascii (false, true, false,
                   false, true, true, true, false)), (String ((Ascii (true,
                   true, true, true, false, true, true, false)), (String
                   ((Ascii (false, false, true, false, true, true, true,
                   false)), (String ((Ascii (true, false, true, false, false,
                   true, true, false)), (String ((Ascii (true, true, false,
                   false, false, true, true, false)), (String ((Ascii (false,
                   false, true, false, true, true, true, false)), (String
                   ((Ascii (true, false, true, false, false, true, true,
                   false)), (String ((Ascii (false, false, true, false,
                   false, true, true, false)), EmptyString))))))))))))))))))
              then bind (o_header a) (fun h -> Ok (M0_protected h))
              else if eqb n0 (String ((Ascii (true, false, true, false, true,
                        true, true, false)), (String ((Ascii (false, true,
                        true, true, false, true, true, false)), (String
                        ((Ascii (false, false, false, false, true, true,
                        true, false)), (String ((Ascii (false, true, false,
                        false, true, true, true, false)), (String ((Ascii
                        (true, true, true, true, false, true, true, false)),
                        (String ((Ascii (false, false, true, false, true,
                        true, true, false)), (String ((Ascii (true, false,
                        true, false, false, true, true, false)), (String
                        ((Ascii (true, true, false, false, false, true, true,
                        false)), (String ((Ascii (false, false, true, false,
                        true, true, true, false)), (String ((Ascii (true,
                        false, true, false, false, true, true, false)),
                        (String ((Ascii (false, false, true, false, false,
                        true, true, false)), EmptyString))))))))))))))))))))))
                   then bind (o_header a) (fun h -> Ok (M0_unprotected h))
                   else if eqb n0 (String ((Ascii (false, false, true, false,
                             true, true, true, false)), (String ((Ascii
                             (true, false, false, false, false, true, true,
                             false)), (String ((Ascii (true, true, true,
                             false, false, true, true, false)),
                             EmptyString))))))
                        then bind (o_bytes a) (fun b -> Ok (M0_tag b))
                        else if eqb n0 (String ((Ascii (false, false, false,
                                  false, true, true, true, false)), (String
                                  ((Ascii (true, false, false, false, false,
                                  true, true, false)), (String ((Ascii (true,
                                  false, false, true, true, true, true,
                                  false)), (String ((Ascii (false, false,
                                  true, true, false, true, true, false)),
                                  (String ((Ascii (true, true, true, true,
                                  false, true, true, false)), (String ((Ascii
                                  (true, false, false, false, false, true,
                                  true, false)), (String ((Ascii (false,
                                  false, true, false, false, true, true,
                                  false)), EmptyString))))))))))))))
                             then bind (o_bytes a) (fun b -> Ok (M0_payload
                                    b))
                             else bad
            | f :: l1 ->
              (match l1 with
               | [] ->
                 if eqb n0 (String ((Ascii (true, true, false, false, false,
                      true, true, false)), (String ((Ascii (false, true,
                      false, false, true, true, true, false)), (String
                      ((Ascii (true, false, true, false, false, true, true,
                      false)), (String ((Ascii (true, false, false, false,
                      false, true, true, false)), (String ((Ascii (false,
                      false, true, false, true, true, true, false)), (String
                      ((Ascii (true, false, true, false, false, true, true,
                      false)), (String ((Ascii (true, true, true, true, true,
                      false, true, false)), (String ((Ascii (false, false,
                      true, false, true, true, true, false)), (String ((Ascii
                      (true, false, false, false, false, true, true, false)),
                      (String ((Ascii (true, true, true, false, false, true,
                      true, false)), EmptyString))))))))))))))))))))
                 then bind (o_bytes a) (fun aad ->
                        bind (closure1_of f) (fun c -> Ok (M0_create_tag
                          (aad, c))))
                 else if eqb n0 (String ((Ascii (false, false, true, false,
                           true, true, true, false)), (String ((Ascii (false,
                           true, false, false, true, true, true, false)),
                           (String ((Ascii (true, false, false, true, true,
                           true, true, false)), (String ((Ascii (true, true,
                           true, true, true, false, true, false)), (String
                           ((Ascii (true, true, false, false, false, true,
                           true, false)), (String ((Ascii (false, true,
                           false, false, true, true, true, false)), (String
                           ((Ascii (true, false, true, false, false, true,
                           true, false)), (String ((Ascii (true, false,
                           false, false, false, true, true, false)), (String
                           ((Ascii (false, false, true, false, true, true,
                           true, false)), (String ((Ascii (true, false, true,
                           false, false, true, true, false)), (String ((Ascii
                           (true, true, true, true, true, false, true,
                           false)), (String ((Ascii (false, false, true,
                           false, true, true, true, false)), (String ((Ascii
                           (true, false, false, false, false, true, true,
                           false)), (String ((Ascii (true, true, true, false,
                           false, true, true, false)),
                           EmptyString))))))))))))))))))))))))))))
                      then bind (o_bytes a) (fun aad ->
                             bind (closure1_of f) (fun c -> Ok
                               (M0_try_create_tag (aad, c))))
                      else bad
               | _ :: _ -> bad)))
      | _ -> bad))
| _ -> bad

(** val o_mac_op : value -> mac_op res **)

let o_mac_op = function
| VArray l ->
  (match l with
   | [] -> bad
   | v0 :: args ->
     (match v0 with
      | VText n ->
        let n0 = b2s n in
        (match args with
         | [] -> bad
         | a :: l0 ->
           (match l0 with
            | [] ->
              if eqb n0 (String ((Ascii (false, false, false, false, true,
                   true, true, false)), (String ((Ascii (false, true, false,
                   false, true, true, true, false)), (String ((Ascii (true,
                   true, true, true, false, true, true, false)), (String
                   ((Ascii (false, false, true, false, true, true, true,
                   false)), (String ((Ascii (true, false, true, false, false,
                   true, true, false)), (String ((Ascii (true, true, false,
                   false, false, true, true, false)), (String ((Ascii (false,
                   false, true, false, true, true, true, false)), (String
                   ((Ascii (true, false, true, false, false, true, true,
                   false)), (String ((Ascii (false, false, true, false,
                   false, true, true, false)), EmptyString))))))))))))))))))
              then bind (o_header a) (fun h -> Ok (MC_protected h))
              else if eqb n0 (String ((Ascii (true, false, true, false, true,
                        true, true, false)), (String ((Ascii (false, true,
                        true, true, false, true, true, false)), (String
                        ((Ascii (false, false, false, false, true, true,
                        true, false)), (String ((Ascii (false, true, false,
                        false, true, true, true, false)), (String ((Ascii
                        (true, true, true, true, false, true, true, false)),
                        (String ((Ascii (false, false, true, false, true,
                        true, true, false)), (String ((Ascii (true, false,
                        true, false, false, true, true, false)), (String
                        ((Ascii (true, true, false, false, false, true, true,
                        false)), (String ((Ascii (false, false, true, false,
                        true, true, true, false)), (String ((Ascii (true,
                        false, true, false, false, true, true, false)),
                        (String ((Ascii (false, false, true, false, false,
                        true, true, false)), EmptyString))))))))))))))))))))))
                   then bind (o_header a) (fun h -> Ok (MC_unprotected h))
                   else if eqb n0 (String ((Ascii (false, false, true, false,
                             true, true, true, false)), (String ((Ascii
                             (true, false, false, false, false, true, true,
                             false)), (String ((Ascii (true, true, true,
                             false, false, true, true, false)),
                             EmptyString))))))
                        then bind (o_bytes a) (fun b -> Ok (MC_tag b))
                        else if eqb n0 (String ((Ascii (false, false, false,
                                  false, true, true, true, false)), (String
                                  ((Ascii (true, false, false, false, false,
                                  true, true, false)), (String ((Ascii (true,
                                  false, false, true, true, true, true,
                                  false)), (String ((Ascii (false, false,
                                  true, true, false, true, true, false)),
                                  (String ((Ascii (true, true, true, true,
                                  false, true, true, false)), (String ((Ascii
                                  (true, false, false, false, false, true,
                                  true, false)), (String ((Ascii (false,
                                  false, true, false, false, true, true,
                                  false)), EmptyString))))))))))))))
                             then bind (o_bytes a) (fun b -> Ok (MC_payload
                                    b))
                             else if eqb n0 (String ((Ascii (true, false,
                                       false, false, false, true, true,
                                       false)), (String ((Ascii (false,
                                       false, true, false, false, true, true,
                                       false)), (String ((Ascii (false,
                                       false, true, false, false, true, true,
                                       false)), (String ((Ascii (true, true,
                                       true, true, true, false, true,
                                       false)), (String ((Ascii (false, true,
                                       false, false, true, true, true,
                                       false)), (String ((Ascii (true, false,
                                       true, false, false, true, true,
                                       false)), (String ((Ascii (true, true,
                                       false, false, false, true, true,
                                       false)), (String ((Ascii (true, false,
                                       false, true, false, true, true,
                                       false)), (String ((Ascii (false,
                                       false, false, false, true, true, true,
                                       false)), (String ((Ascii (true, false,
                                       false, true, false, true, true,
                                       false)), (String ((Ascii (true, false,
                                       true, false, false, true, true,
                                       false)), (String ((Ascii (false, true,
                                       true, true, false, true, true,
                                       false)), (String ((Ascii (false,
                                       false, true, false, true, true, true,
                                       false)),
                                       EmptyString))))))))))))))))))))))))))
                                  then bind (o_recipient a) (fun r -> Ok
                                         (MC_add_recipient r))
                                  else bad
            | f :: l1 ->
              (match l1 with
               | [] ->
                 if eqb n0 (String ((Ascii (true, true, false, false, false,
                      true, true, false)), (String ((Ascii (false, true,
                      false, false, true, true, true, false)), (String
                      ((Ascii (true, false, true, false, false, true, true,
                      false)), (String ((Ascii (true, false, false, false,
                      false, true, true, false)), (String ((Ascii (false,
                      false, true, false, true, true, true, false)), (String
                      ((Ascii (true, false, true, false, false, true, true,
                      false)), (String ((Ascii (true, true, true, true, true,
                      false, true, false)), (String ((Ascii (false, false,
                      true, false, true, true, true, false)), (String ((Ascii
                      (true, false, false, false, false, true, true, false)),
                      (String ((Ascii (true, true, true, false, false, true,
                      true, false)), EmptyString))))))))))))))))))))
                 then bind (o_bytes a) (fun aad ->
                        bind (closure1_of f) (fun c -> Ok (MC_create_tag
                          (aad, c))))
                 else if eqb n0 (String ((Ascii (false, false, true, false,
                           true, true, true, false)), (String ((Ascii (false,
                           true, false, false, true, true, true, false)),
                           (String ((Ascii (true, false, false, true, true,
                           true, true, false)), (String ((Ascii (true, true,
                           true, true, true, false, true, false)), (String
                           ((Ascii (true, true, false, false, false, true,
                           true, false)), (String ((Ascii (false, true,
                           false, false, true, true, true, false)), (String
                           ((Ascii (true, false, true, false, false, true,
                           true, false)), (String ((Ascii (true, false,
                           false, false, false, true, true, false)), (String
                           ((Ascii (false, false, true, false, true, true,
                           true, false)), (String ((Ascii (true, false, true,
                           false, false, true, true, false)), (String ((Ascii
                           (true, true, true, true, true, false, true,
                           false)), (String ((Ascii (false, false, true,
                           false, true, true, true, false)), (String ((Ascii
                           (true, false, false, false, false, true, true,
                           false)), (String ((Ascii (true, true, true, false,
                           false, true, true, false)),
                           EmptyString))))))))))))))))))))))))))))
                      then bind (o_bytes a) (fun aad ->
                             bind (closure1_of f) (fun c -> Ok
                               (MC_try_create_tag (aad, c))))
                      else bad
               | _ :: _ -> bad)))
      | _ -> bad))
| _ -> bad

(** val o_recipient_op : value -> recipient_op res **)

let o_recipient_op = function
| VArray l ->
  (match l with
   | [] -> bad
   | v0 :: args ->
     (match v0 with
      | VText n ->
        let n0 = b2s n in
        (match args with
         | [] -> bad
         | c :: l0 ->
           (match l0 with
            | [] ->
              if eqb n0 (String ((Ascii (false, false, false, false, true,
                   true, true, false)), (String ((Ascii (false, true, false,
                   false, true, true, true, false)), (String ((Ascii (true,
                   true, true, true, false, true, true, false)), (String
                   ((Ascii (false, false, true, false, true, true, true,
                   false)), (String ((Ascii (true, false, true, false, false,
                   true, true, false)), (String ((Ascii (true, true, false,
                   false, false, true, true, false)), (String ((Ascii (false,
                   false, true, false, true, true, true, false)), (String
                   ((Ascii (true, false, true, false, false, true, true,
                   false)), (String ((Ascii (false, false, true, false,
                   false, true, true, false)), EmptyString))))))))))))))))))
              then bind (o_header c) (fun h -> Ok (RO_protected h))
              else if eqb n0 (String ((Ascii (true, false, true, false, true,
                        true, true, false)), (String ((Ascii (false, true,
                        true, true, false, true, true, false)), (String
                        ((Ascii (false, false, false, false, true, true,
                        true, false)), (String ((Ascii (false, true, false,
                        false, true, true, true, false)), (String ((Ascii
                        (true, true, true, true, false, true, true, false)),
                        (String ((Ascii (false, false, true, false, true,
                        true, true, false)), (String ((Ascii (true, false,
                        true, false, false, true, true, false)), (String
                        ((Ascii (true, true, false, false, false, true, true,
                        false)), (String ((Ascii (false, false, true, false,
                        true, true, true, false)), (String ((Ascii (true,
                        false, true, false, false, true, true, false)),
                        (String ((Ascii (false, false, true, false, false,
                        true, true, false)), EmptyString))))))))))))))))))))))
                   then bind (o_header c) (fun h -> Ok (RO_unprotected h))
                   else if eqb n0 (String ((Ascii (true, true, false, false,
                             false, true, true, false)), (String ((Ascii
                             (true, false, false, true, false, true, true,
                             false)), (String ((Ascii (false, false, false,
                             false, true, true, true, false)), (String
                             ((Ascii (false, false, false, true, false, true,
                             true, false)), (String ((Ascii (true, false,
                             true, false, false, true, true, false)), (String
                             ((Ascii (false, true, false, false, true, true,
                             true, false)), (String ((Ascii (false, false,
                             true, false, true, true, true, false)), (String
                             ((Ascii (true, false, true, false, false, true,
                             true, false)), (String ((Ascii (false, false,
                             false, true, true, true, true, false)), (String
                             ((Ascii (false, false, true, false, true, true,
                             true, false)), EmptyString))))))))))))))))))))
                        then bind (o_bytes c) (fun b -> Ok (RO_ciphertext b))
                        else if eqb n0 (String ((Ascii (true, false, false,
                                  false, false, true, true, false)), (String
                                  ((Ascii (false, false, true, false, false,
                                  true, true, false)), (String ((Ascii
                                  (false, false, true, false, false, true,
                                  true, false)), (String ((Ascii (true, true,
                                  true, true, true, false, true, false)),
                                  (String ((Ascii (false, true, false, false,
                                  true, true, true, false)), (String ((Ascii
                                  (true, false, true, false, false, true,
                                  true, false)), (String ((Ascii (true, true,
                                  false, false, false, true, true, false)),
                                  (String ((Ascii (true, false, false, true,
                                  false, true, true, false)), (String ((Ascii
                                  (false, false, false, false, true, true,
                                  true, false)), (String ((Ascii (true,
                                  false, false, true, false, true, true,
                                  false)), (String ((Ascii (true, false,
                                  true, false, false, true, true, false)),
                                  (String ((Ascii (false, true, true, true,
                                  false, true, true, false)), (String ((Ascii
                                  (false, false, true, false, true, true,
                                  true, false)),
                                  EmptyString))))))))))))))))))))))))))
                             then bind (o_recipient c) (fun r -> Ok
                                    (RO_add_recipient r))
                             else bad
            | p :: l1 ->
              (match l1 with
               | [] -> bad
               | a :: l2 ->
                 (match l2 with
                  | [] -> bad
                  | f :: l3 ->
                    (match l3 with
                     | [] ->
                       if eqb n0 (String ((Ascii (true, true, false, false,
                            false, true, true, false)), (String ((Ascii
                            (false, true, false, false, true, true, true,
                            false)), (String ((Ascii (true, false, true,
                            false, false, true, true, false)), (String
                            ((Ascii (true, false, false, false, false, true,
                            true, false)), (String ((Ascii (false, false,
                            true, false, true, true, true, false)), (String
                            ((Ascii (true, false, true, false, false, true,
                            true, false)), (String ((Ascii (true, true, true,
                            true, true, false, true, false)), (String ((Ascii
                            (true, true, false, false, false, true, true,
                            false)), (String ((Ascii (true, false, false,
                            true, false, true, true, false)), (String ((Ascii
                            (false, false, false, false, true, true, true,
                            false)), (String ((Ascii (false, false, false,
                            true, false, true, true, false)), (String ((Ascii
                            (true, false, true, false, false, true, true,
                            false)), (String ((Ascii (false, true, false,
                            false, true, true, true, false)), (String ((Ascii
                            (false, false, true, false, true, true, true,
                            false)), (String ((Ascii (true, false, true,
                            false, false, true, true, false)), (String
                            ((Ascii (false, false, false, true, true, true,
                            true, false)), (String ((Ascii (false, false,
                            true, false, true, true, true, false)),
                            EmptyString))))))))))))))))))))))))))))))))))
                       then bind (o_enc_ctx c) (fun c' ->
                              bind (o_bytes p) (fun pt ->
                                bind (o_bytes a) (fun aad ->
                                  bind (closure2_of f) (fun g -> Ok
                                    (RO_create_ciphertext (c', pt, aad, g))))))
                       else if eqb n0 (String ((Ascii (false, false, true,
                                 false, true, true, true, false)), (String
                                 ((Ascii (false, true, false, false, true,
                                 true, true, false)), (String ((Ascii (true,
                                 false, false, true, true, true, true,
                                 false)), (String ((Ascii (true, true, true,
                                 true, true, false, true, false)), (String
                                 ((Ascii (true, true, false, false, false,
                                 true, true, false)), (String ((Ascii (false,
                                 true, false, false, true, true, true,
                                 false)), (String ((Ascii (true, false, true,
                                 false, false, true, true, false)), (String
                                 ((Ascii (true, false, false, false, false,
                                 true, true, false)), (String ((Ascii (false,
                                 false, true, false, true, true, true,
                                 false)), (String ((Ascii (true, false, true,
                                 false, false, true, true, false)), (String
                                 ((Ascii (true, true, true, true, true,
                                 false, true, false)), (String ((Ascii (true,
                                 true, false, false, false, true, true,
                                 false)), (String ((Ascii (true, false,
                                 false, true, false, true, true, false)),
                                 (String ((Ascii (false, false, false, false,
                                 true, true, true, false)), (String ((Ascii
                                 (false, false, false, true, false, true,
                                 true, false)), (String ((Ascii (true, false,
                                 true, false, false, true, true, false)),
                                 (String ((Ascii (false, true, false, false,
                                 true, true, true, false)), (String ((Ascii
                                 (false, false, true, false, true, true,
                                 true, false)), (String ((Ascii (true, false,
                                 true, false, false, true, true, false)),
                                 (String ((Ascii (false, false, false, true,
                                 true, true, true, false)), (String ((Ascii
                                 (false, false, true, false, true, true,
                                 true, false)),
                                 EmptyString))))))))))))))))))))))))))))))))))))))))))
                            then bind (o_enc_ctx c) (fun c' ->
                                   bind (o_bytes p) (fun pt ->
                                     bind (o_bytes a) (fun aad ->
                                       bind (closure2_of f) (fun g -> Ok
                                         (RO_try_create_ciphertext (c', pt,
                                         aad, g))))))
                            else bad
                     | _ :: _ -> bad)))))
      | _ -> bad))
| _ -> bad

(** val o_encrypt_op : value -> encrypt_op res **)

let o_encrypt_op = function
| VArray l ->
  (match l with
   | [] -> bad
   | v0 :: args ->
     (match v0 with
      | VText n ->
        let n0 = b2s n in
        (match args with
         | [] -> bad
         | p :: l0 ->
           (match l0 with
            | [] ->
              if eqb n0 (String ((Ascii (false, false, false, false, true,
                   true, true, false)), (String ((Ascii (false, true, false,
                   false, true, true, true, false)), (String ((Ascii (true,
                   true, true, true, false, true, true, false)), (String
                   ((Ascii (false, false, true, false, true, true, true,
                   false)), (String ((Ascii (true, false, true, false, false,
                   true, true, false)), (String ((Ascii (true, true, false,
                   false, false, true, true, false)), (String ((Ascii (false,
                   false, true, false, true, true, true, false)), (String
                   ((Ascii (true, false, true, false, false, true, true,
                   false)), (String ((Ascii (false, false, true, false,
                   false, true, true, false)), EmptyString))))))))))))))))))
              then bind (o_header p) (fun h -> Ok (EO_protected h))
              else if eqb n0 (String ((Ascii (true, false, true, false, true,
                        true, true, false)), (String ((Ascii (false, true,
                        true, true, false, true, true, false)), (String
                        ((Ascii (false, false, false, false, true, true,
                        true, false)), (String ((Ascii (false, true, false,
                        false, true, true, true, false)), (String ((Ascii
                        (true, true, true, true, false, true, true, false)),
                        (String ((Ascii (false, false, true, false, true,
                        true, true, false)), (String ((Ascii (true, false,
                        true, false, false, true, true, false)), (String
                        ((Ascii (true, true, false, false, false, true, true,
                        false)), (String ((Ascii (false, false, true, false,
                        true, true, true, false)), (String ((Ascii (true,
                        false, true, false, false, true, true, false)),
                        (String ((Ascii (false, false, true, false, false,
                        true, true, false)), EmptyString))))))))))))))))))))))
                   then bind (o_header p) (fun h -> Ok (EO_unprotected h))
                   else if eqb n0 (String ((Ascii (true, true, false, false,
                             false, true, true, false)), (String ((Ascii
                             (true, false, false, true, false, true, true,
                             false)), (String ((Ascii (false, false, false,
                             false, true, true, true, false)), (String
                             ((Ascii (false, false, false, true, false, true,
                             true, false)), (String ((Ascii (true, false,
                             true, false, false, true, true, false)), (String
                             ((Ascii (false, true, false, false, true, true,
                             true, false)), (String ((Ascii (false, false,
                             true, false, true, true, true, false)), (String
                             ((Ascii (true, false, true, false, false, true,
                             true, false)), (String ((Ascii (false, false,
                             false, true, true, true, true, false)), (String
                             ((Ascii (false, false, true, false, true, true,
                             true, false)), EmptyString))))))))))))))))))))
                        then bind (o_bytes p) (fun b -> Ok (EO_ciphertext b))
                        else if eqb n0 (String ((Ascii (true, false, false,
                                  false, false, true, true, false)), (String
                                  ((Ascii (false, false, true, false, false,
                                  true, true, false)), (String ((Ascii
                                  (false, false, true, false, false, true,
                                  true, false)), (String ((Ascii (true, true,
                                  true, true, true, false, true, false)),
                                  (String ((Ascii (false, true, false, false,
                                  true, true, true, false)), (String ((Ascii
                                  (true, false, true, false, false, true,
                                  true, false)), (String ((Ascii (true, true,
                                  false, false, false, true, true, false)),
                                  (String ((Ascii (true, false, false, true,
                                  false, true, true, false)), (String ((Ascii
                                  (false, false, false, false, true, true,
                                  true, false)), (String ((Ascii (true,
                                  false, false, true, false, true, true,
                                  false)), (String ((Ascii (true, false,
                                  true, false, false, true, true, false)),
                                  (String ((Ascii (false, true, true, true,
                                  false, true, true, false)), (String ((Ascii
                                  (false, false, true, false, true, true,
                                  true, false)),
                                  EmptyString))))))))))))))))))))))))))
                             then bind (o_recipient p) (fun r -> Ok
                                    (EO_add_recipient r))
                             else bad
            | a :: l1 ->
              (match l1 with
               | [] -> bad
               | f :: l2 ->
                 (match l2 with
                  | [] ->
                    if eqb n0 (String ((Ascii (true, true, false, false,
                         false, true, true, false)), (String ((Ascii (false,
                         true, false, false, true, true, true, false)),
                         (String ((Ascii (true, false, true, false, false,
                         true, true, false)), (String ((Ascii (true, false,
                         false, false, false, true, true, false)), (String
                         ((Ascii (false, false, true, false, true, true,
                         true, false)), (String ((Ascii (true, false, true,
                         false, false, true, true, false)), (String ((Ascii
                         (true, true, true, true, true, false, true, false)),
                         (String ((Ascii (true, true, false, false, false,
                         true, true, false)), (String ((Ascii (true, false,
                         false, true, false, true, true, false)), (String
                         ((Ascii (false, false, false, false, true, true,
                         true, false)), (String ((Ascii (false, false, false,
                         true, false, true, true, false)), (String ((Ascii
                         (true, false, true, false, false, true, true,
                         false)), (String ((Ascii (false, true, false, false,
                         true, true, true, false)), (String ((Ascii (false,
                         false, true, false, true, true, true, false)),
                         (String ((Ascii (true, false, true, false, false,
                         true, true, false)), (String ((Ascii (false, false,
                         false, true, true, true, true, false)), (String
                         ((Ascii (false, false, true, false, true, true,
                         true, false)),
                         EmptyString))))))))))))))))))))))))))))))))))
                    then bind (o_bytes p) (fun pt ->
                           bind (o_bytes a) (fun aad ->
                             bind (closure2_of f) (fun g -> Ok
                               (EO_create_ciphertext (pt, aad, g)))))
                    else if eqb n0 (String ((Ascii (false, false, true,
                              false, true, true, true, false)), (String
                              ((Ascii (false, true, false, false, true, true,
                              true, false)), (String ((Ascii (true, false,
                              false, true, true, true, true, false)), (String
                              ((Ascii (true, true, true, true, true, false,
                              true, false)), (String ((Ascii (true, true,
                              false, false, false, true, true, false)),
                              (String ((Ascii (false, true, false, false,
                              true, true, true, false)), (String ((Ascii
                              (true, false, true, false, false, true, true,
                              false)), (String ((Ascii (true, false, false,
                              false, false, true, true, false)), (String
                              ((Ascii (false, false, true, false, true, true,
                              true, false)), (String ((Ascii (true, false,
                              true, false, false, true, true, false)),
                              (String ((Ascii (true, true, true, true, true,
                              false, true, false)), (String ((Ascii (true,
                              true, false, false, false, true, true, false)),
                              (String ((Ascii (true, false, false, true,
                              false, true, true, false)), (String ((Ascii
                              (false, false, false, false, true, true, true,
                              false)), (String ((Ascii (false, false, false,
                              true, false, true, true, false)), (String
                              ((Ascii (true, false, true, false, false, true,
                              true, false)), (String ((Ascii (false, true,
                              false, false, true, true, true, false)),
                              (String ((Ascii (false, false, true, false,
                              true, true, true, false)), (String ((Ascii
                              (true, false, true, false, false, true, true,
                              false)), (String ((Ascii (false, false, false,
                              true, true, true, true, false)), (String
                              ((Ascii (false, false, true, false, true, true,
                              true, false)),
                              EmptyString))))))))))))))))))))))))))))))))))))))))))
                         then bind (o_bytes p) (fun pt ->
                                bind (o_bytes a) (fun aad ->
                                  bind (closure2_of f) (fun g -> Ok
                                    (EO_try_create_ciphertext (pt, aad, g)))))
                         else bad
                  | _ :: _ -> bad))))
      | _ -> bad))
| _ -> bad

(** val o_encrypt0_op : value -> encrypt0_op res **)

let o_encrypt0_op = function
| VArray l ->
  (match l with
   | [] -> bad
   | v0 :: args ->
     (match v0 with
      | VText n ->
        let n0 = b2s n in
        (match args with
         | [] -> bad
         | p :: l0 ->
           (match l0 with
            | [] ->
              if eqb n0 (String ((Ascii (false, false, false, false, true,
                   true, true, false)), (String ((Ascii (false, true, false,
                   false, true, true, true, false)), (String ((Ascii (true,
                   true, true, true, false, true, true, false)), (String
                   ((Ascii (false, false, true, false, true, true, true,
                   false)), (String ((Ascii (true, false, true, false, false,
                   true, true, false)), (String ((Ascii (true, true, false,
                   false, false, true, true, false)), (String ((Ascii (false,
                   false, true, false, true, true, true, false)), (String
                   ((Ascii (true, false, true, false, false, true, true,
                   false)), (String ((Ascii (false, false, true, false,
                   false, true, true, false)), EmptyString))))))))))))))))))
              then bind (o_header p) (fun h -> Ok (E0_protected h))
              else if eqb n0 (String ((Ascii (true, false, true, false, true,
                        true, true, false)), (String ((Ascii (false, true,
                        true, true, false, true, true, false)), (String
                        ((Ascii (false, false, false, false, true, true,
                        true, false)), (String ((Ascii (false, true, false,
                        false, true, true, true, false)), (String ((Ascii
                        (true, true, true, true, false, true, true, false)),
                        (String ((Ascii (false, false, true, false, true,
                        true, true, false)), (String ((Ascii (true, false,
                        true, false, false, true, true, false)), (String
                        ((Ascii (true, true, false, false, false, true, true,
                        false)), (String ((Ascii (false, false, true, false,
                        true, true, true, false)), (String ((Ascii (true,
                        false, true, false, false, true, true, false)),
                        (String ((Ascii (false, false, true, false, false,
                        true, true, false)), EmptyString))))))))))))))))))))))
                   then bind (o_header p) (fun h -> Ok (E0_unprotected h))
                   else if eqb n0 (String ((Ascii (true, true, false, false,
                             false, true, true, false)), (String ((Ascii
                             (true, false, false, true, false, true, true,
                             false)), (String ((Ascii (false, false, false,
                             false, true, true, true, false)), (String
                             ((Ascii (false, false, false, true, false, true,
                             true, false)), (String ((Ascii (true, false,
                             true, false, false, true, true, false)), (String
                             ((Ascii (false, true, false, false, true, true,
                             true, false)), (String ((Ascii (false, false,
                             true, false, true, true, true, false)), (String
                             ((Ascii (true, false, true, false, false, true,
                             true, false)), (String ((Ascii (false, false,
                             false, true, true, true, true, false)), (String
                             ((Ascii (false, false, true, false, true, true,
                             true, false)), EmptyString))))))))))))))))))))
                        then bind (o_bytes p) (fun b -> Ok (E0_ciphertext b))
                        else bad
            | a :: l1 ->
              (match l1 with
               | [] -> bad
               | f :: l2 ->
                 (match l2 with
                  | [] ->
                    if eqb n0 (String ((Ascii (true, true, false, false,
                         false, true, true, false)), (String ((Ascii (false,
                         true, false, false, true, true, true, false)),
                         (String ((Ascii (true, false, true, false, false,
                         true, true, false)), (String ((Ascii (true, false,
                         false, false, false, true, true, false)), (String
                         ((Ascii (false, false, true, false, true, true,
                         true, false)), (String ((Ascii (true, false, true,
                         false, false, true, true, false)), (String ((Ascii
                         (true, true, true, true, true, false, true, false)),
                         (String ((Ascii (true, true, false, false, false,
                         true, true, false)), (String ((Ascii (true, false,
                         false, true, false, true, true, false)), (String
                         ((Ascii (false, false, false, false, true, true,
                         true, false)), (String ((Ascii (false, false, false,
                         true, false, true, true, false)), (String ((Ascii
                         (true, false, true, false, false, true, true,
                         false)), (String ((Ascii (false, true, false, false,
                         true, true, true, false)), (String ((Ascii (false,
                         false, true, false, true, true, true, false)),
                         (String ((Ascii (true, false, true, false, false,
                         true, true, false)), (String ((Ascii (false, false,
                         false, true, true, true, true, false)), (String
                         ((Ascii (false, false, true, false, true, true,
                         true, false)),
                         EmptyString))))))))))))))))))))))))))))))))))
                    then bind (o_bytes p) (fun pt ->
                           bind (o_bytes a) (fun aad ->
                             bind (closure2_of f) (fun g -> Ok
                               (E0_create_ciphertext (pt, aad, g)))))
                    else if eqb n0 (String ((Ascii (false, false, true,
                              false, true, true, true, false)), (String
                              ((Ascii (false, true, false, false, true, true,
                              true, false)), (String ((Ascii (true, false,
                              false, true, true, true, true, false)), (String
                              ((Ascii (true, true, true, true, true, false,
                              true, false)), (String ((Ascii (true, true,
                              false, false, false, true, true, false)),
                              (String ((Ascii (false, true, false, false,
                              true, true, true, false)), (String ((Ascii
                              (true, false, true, false, false, true, true,
                              false)), (String ((Ascii (true, false, false,
                              false, false, true, true, false)), (String
                              ((Ascii (false, false, true, false, true, true,
                              true, false)), (String ((Ascii (true, false,
                              true, false, false, true, true, false)),
                              (String ((Ascii (true, true, true, true, true,
                              false, true, false)), (String ((Ascii (true,
                              true, false, false, false, true, true, false)),
                              (String ((Ascii (true, false, false, true,
                              false, true, true, false)), (String ((Ascii
                              (false, false, false, false, true, true, true,
                              false)), (String ((Ascii (false, false, false,
                              true, false, true, true, false)), (String
                              ((Ascii (true, false, true, false, false, true,
                              true, false)), (String ((Ascii (false, true,
                              false, false, true, true, true, false)),
                              (String ((Ascii (false, false, true, false,
                              true, true, true, false)), (String ((Ascii
                              (true, false, true, false, false, true, true,
                              false)), (String ((Ascii (false, false, false,
                              true, true, true, true, false)), (String
                              ((Ascii (false, false, true, false, true, true,
                              true, false)),
                              EmptyString))))))))))))))))))))))))))))))))))))))))))
                         then bind (o_bytes p) (fun pt ->
                                bind (o_bytes a) (fun aad ->
                                  bind (closure2_of f) (fun g -> Ok
                                    (E0_try_create_ciphertext (pt, aad, g)))))
                         else bad
                  | _ :: _ -> bad))))
      | _ -> bad))
| _ -> bad

(** val o_bool : value -> bool res **)

let o_bool = function
| VBool b -> Ok b
| _ -> bad

(** val o_key_op : value -> key_op res **)

let o_key_op = function
| VArray l ->
  (match l with
   | [] -> bad
   | v0 :: args ->
     (match v0 with
      | VText n ->
        let n0 = b2s n in
        (match args with
         | [] ->
           if eqb n0 (String ((Ascii (false, true, true, true, false, true,
                true, false)), (String ((Ascii (true, false, true, false,
                false, true, true, false)), (String ((Ascii (true, true,
                true, false, true, true, true, false)), EmptyString))))))
           then Ok KO_new
           else if eqb n0 (String ((Ascii (false, true, true, true, false,
                     true, true, false)), (String ((Ascii (true, false, true,
                     false, false, true, true, false)), (String ((Ascii
                     (true, true, true, false, true, true, true, false)),
                     (String ((Ascii (true, true, true, true, true, false,
                     true, false)), (String ((Ascii (true, true, true, true,
                     false, true, true, false)), (String ((Ascii (true, true,
                     false, true, false, true, true, false)), (String ((Ascii
                     (false, false, false, false, true, true, true, false)),
                     (String ((Ascii (true, true, true, true, true, false,
                     true, false)), (String ((Ascii (true, true, false, true,
                     false, true, true, false)), (String ((Ascii (true,
                     false, true, false, false, true, true, false)), (String
                     ((Ascii (true, false, false, true, true, true, true,
                     false)), EmptyString))))))))))))))))))))))
                then Ok KO_new_okp_key
                else bad
         | c :: l0 ->
           (match l0 with
            | [] ->
              if eqb n0 (String ((Ascii (false, true, true, true, false,
                   true, true, false)), (String ((Ascii (true, false, true,
                   false, false, true, true, false)), (String ((Ascii (true,
                   true, true, false, true, true, true, false)), (String
                   ((Ascii (true, true, true, true, true, false, true,
                   false)), (String ((Ascii (true, true, false, false, true,
                   true, true, false)), (String ((Ascii (true, false, false,
                   true, true, true, true, false)), (String ((Ascii (true,
                   false, true, true, false, true, true, false)), (String
                   ((Ascii (true, false, true, true, false, true, true,
                   false)), (String ((Ascii (true, false, true, false, false,
                   true, true, false)), (String ((Ascii (false, false, true,
                   false, true, true, true, false)), (String ((Ascii (false,
                   true, false, false, true, true, true, false)), (String
                   ((Ascii (true, false, false, true, false, true, true,
                   false)), (String ((Ascii (true, true, false, false, false,
                   true, true, false)), (String ((Ascii (true, true, true,
                   true, true, false, true, false)), (String ((Ascii (true,
                   true, false, true, false, true, true, false)), (String
                   ((Ascii (true, false, true, false, false, true, true,
                   false)), (String ((Ascii (true, false, false, true, true,
                   true, true, false)),
                   EmptyString))))))))))))))))))))))))))))))))))
              then bind (o_bytes c) (fun b -> Ok (KO_new_symmetric_key b))
              else if eqb n0 (String ((Ascii (true, true, false, true, false,
                        true, true, false)), (String ((Ascii (false, false,
                        true, false, true, true, true, false)), (String
                        ((Ascii (true, false, false, true, true, true, true,
                        false)), EmptyString))))))
                   then bind (o_reg c) (fun t -> Ok (KO_kty t))
                   else if eqb n0 (String ((Ascii (true, true, false, true,
                             false, true, true, false)), (String ((Ascii
                             (true, false, true, false, false, true, true,
                             false)), (String ((Ascii (true, false, false,
                             true, true, true, true, false)), (String ((Ascii
                             (true, true, true, true, true, false, true,
                             false)), (String ((Ascii (true, false, false,
                             true, false, true, true, false)), (String
                             ((Ascii (false, false, true, false, false, true,
                             true, false)), EmptyString))))))))))))
                        then bind (o_bytes c) (fun b -> Ok (KO_key_id b))
                        else if eqb n0 (String ((Ascii (false, true, false,
                                  false, false, true, true, false)), (String
                                  ((Ascii (true, false, false, false, false,
                                  true, true, false)), (String ((Ascii (true,
                                  true, false, false, true, true, true,
                                  false)), (String ((Ascii (true, false,
                                  true, false, false, true, true, false)),
                                  (String ((Ascii (true, true, true, true,
                                  true, false, true, false)), (String ((Ascii
                                  (true, false, false, true, false, true,
                                  true, false)), (String ((Ascii (false,
                                  true, true, false, true, true, true,
                                  false)), EmptyString))))))))))))))
                             then bind (o_bytes c) (fun b -> Ok (KO_base_iv
                                    b))
                             else if eqb n0 (String ((Ascii (true, true,
                                       false, true, false, true, true,
                                       false)), (String ((Ascii (true, false,
                                       true, false, false, true, true,
                                       false)), (String ((Ascii (true, false,
                                       false, true, true, true, true,
                                       false)), (String ((Ascii (true, true,
                                       true, true, true, false, true,
                                       false)), (String ((Ascii (false,
                                       false, true, false, true, true, true,
                                       false)), (String ((Ascii (true, false,
                                       false, true, true, true, true,
                                       false)), (String ((Ascii (false,
                                       false, false, false, true, true, true,
                                       false)), (String ((Ascii (true, false,
                                       true, false, false, true, true,
                                       false)), EmptyString))))))))))))))))
                                  then bind (o_int c) (fun z -> Ok
                                         (KO_key_type z))
                                  else if eqb n0 (String ((Ascii (true,
                                            false, false, false, false, true,
                                            true, false)), (String ((Ascii
                                            (false, false, true, true, false,
                                            true, true, false)), (String
                                            ((Ascii (true, true, true, false,
                                            false, true, true, false)),
                                            (String ((Ascii (true, true,
                                            true, true, false, true, true,
                                            false)), (String ((Ascii (false,
                                            true, false, false, true, true,
                                            true, false)), (String ((Ascii
                                            (true, false, false, true, false,
                                            true, true, false)), (String
                                            ((Ascii (false, false, true,
                                            false, true, true, true, false)),
                                            (String ((Ascii (false, false,
                                            false, true, false, true, true,
                                            false)), (String ((Ascii (true,
                                            false, true, true, false, true,
                                            true, false)),
                                            EmptyString))))))))))))))))))
                                       then bind (o_int c) (fun z -> Ok
                                              (KO_algorithm z))
                                       else if eqb n0 (String ((Ascii (true,
                                                 false, false, false, false,
                                                 true, true, false)), (String
                                                 ((Ascii (false, false, true,
                                                 false, false, true, true,
                                                 false)), (String ((Ascii
                                                 (false, false, true, false,
                                                 false, true, true, false)),
                                                 (String ((Ascii (true, true,
                                                 true, true, true, false,
                                                 true, false)), (String
                                                 ((Ascii (true, true, false,
                                                 true, false, true, true,
                                                 false)), (String ((Ascii
                                                 (true, false, true, false,
                                                 false, true, true, false)),
                                                 (String ((Ascii (true,
                                                 false, false, true, true,
                                                 true, true, false)), (String
                                                 ((Ascii (true, true, true,
                                                 true, true, false, true,
                                                 false)), (String ((Ascii
                                                 (true, true, true, true,
                                                 false, true, true, false)),
                                                 (String ((Ascii (false,
                                                 false, false, false, true,
                                                 true, true, false)),
                                                 EmptyString))))))))))))))))))))
                                            then bind (o_int c) (fun z -> Ok
                                                   (KO_add_key_op z))
                                            else bad
            | x :: l1 ->
              (match l1 with
               | [] ->
                 if eqb n0 (String ((Ascii (false, false, false, false, true,
                      true, true, false)), (String ((Ascii (true, false,
                      false, false, false, true, true, false)), (String
                      ((Ascii (false, true, false, false, true, true, true,
                      false)), (String ((Ascii (true, false, false, false,
                      false, true, true, false)), (String ((Ascii (true,
                      false, true, true, false, true, true, false)),
                      EmptyString))))))))))
                 then bind (o_int c) (fun z -> Ok (KO_param (z, x)))
                 else bad
               | y :: l2 ->
                 (match l2 with
                  | [] ->
                    if eqb n0 (String ((Ascii (false, true, true, true,
                         false, true, true, false)), (String ((Ascii (true,
                         false, true, false, false, true, true, false)),
                         (String ((Ascii (true, true, true, false, true,
                         true, true, false)), (String ((Ascii (true, true,
                         true, true, true, false, true, false)), (String
                         ((Ascii (true, false, true, false, false, true,
                         true, false)), (String ((Ascii (true, true, false,
                         false, false, true, true, false)), (String ((Ascii
                         (false, true, false, false, true, true, false,
                         false)), (String ((Ascii (true, true, true, true,
                         true, false, true, false)), (String ((Ascii (false,
                         false, false, false, true, true, true, false)),
                         (String ((Ascii (true, false, true, false, true,
                         true, true, false)), (String ((Ascii (false, true,
                         false, false, false, true, true, false)), (String
                         ((Ascii (true, true, true, true, true, false, true,
                         false)), (String ((Ascii (true, true, false, true,
                         false, true, true, false)), (String ((Ascii (true,
                         false, true, false, false, true, true, false)),
                         (String ((Ascii (true, false, false, true, true,
                         true, true, false)),
                         EmptyString))))))))))))))))))))))))))))))
                    then bind (o_int c) (fun c' ->
                           bind (o_bytes x) (fun x' ->
                             bind (o_bytes y) (fun y' -> Ok
                               (KO_new_ec2_pub_key (c', x', y')))))
                    else if eqb n0 (String ((Ascii (false, true, true, true,
                              false, true, true, false)), (String ((Ascii
                              (true, false, true, false, false, true, true,
                              false)), (String ((Ascii (true, true, true,
                              false, true, true, true, false)), (String
                              ((Ascii (true, true, true, true, true, false,
                              true, false)), (String ((Ascii (true, false,
                              true, false, false, true, true, false)),
                              (String ((Ascii (true, true, false, false,
                              false, true, true, false)), (String ((Ascii
                              (false, true, false, false, true, true, false,
                              false)), (String ((Ascii (true, true, true,
                              true, true, false, true, false)), (String
                              ((Ascii (false, false, false, false, true,
                              true, true, false)), (String ((Ascii (true,
                              false, true, false, true, true, true, false)),
                              (String ((Ascii (false, true, false, false,
                              false, true, true, false)), (String ((Ascii
                              (true, true, true, true, true, false, true,
                              false)), (String ((Ascii (true, true, false,
                              true, false, true, true, false)), (String
                              ((Ascii (true, false, true, false, false, true,
                              true, false)), (String ((Ascii (true, false,
                              false, true, true, true, true, false)), (String
                              ((Ascii (true, true, true, true, true, false,
                              true, false)), (String ((Ascii (true, false,
                              false, true, true, true, true, false)), (String
                              ((Ascii (true, true, true, true, true, false,
                              true, false)), (String ((Ascii (true, true,
                              false, false, true, true, true, false)),
                              (String ((Ascii (true, false, false, true,
                              false, true, true, false)), (String ((Ascii
                              (true, true, true, false, false, true, true,
                              false)), (String ((Ascii (false, true, true,
                              true, false, true, true, false)),
                              EmptyString))))))))))))))))))))))))))))))))))))))))))))
                         then bind (o_int c) (fun c' ->
                                bind (o_bytes x) (fun x' ->
                                  bind (o_bool y) (fun y' -> Ok
                                    (KO_new_ec2_pub_key_y_sign (c', x', y')))))
                         else bad
                  | d :: l3 ->
                    (match l3 with
                     | [] ->
                       if eqb n0 (String ((Ascii (false, true, true, true,
                            false, true, true, false)), (String ((Ascii
                            (true, false, true, false, false, true, true,
                            false)), (String ((Ascii (true, true, true,
                            false, true, true, true, false)), (String ((Ascii
                            (true, true, true, true, true, false, true,
                            false)), (String ((Ascii (true, false, true,
                            false, false, true, true, false)), (String
                            ((Ascii (true, true, false, false, false, true,
                            true, false)), (String ((Ascii (false, true,
                            false, false, true, true, false, false)), (String
                            ((Ascii (true, true, true, true, true, false,
                            true, false)), (String ((Ascii (false, false,
                            false, false, true, true, true, false)), (String
                            ((Ascii (false, true, false, false, true, true,
                            true, false)), (String ((Ascii (true, false,
                            false, true, false, true, true, false)), (String
                            ((Ascii (false, true, true, false, true, true,
                            true, false)), (String ((Ascii (true, true, true,
                            true, true, false, true, false)), (String ((Ascii
                            (true, true, false, true, false, true, true,
                            false)), (String ((Ascii (true, false, true,
                            false, false, true, true, false)), (String
                            ((Ascii (true, false, false, true, true, true,
                            true, false)),
                            EmptyString))))))))))))))))))))))))))))))))
                       then bind (o_int c) (fun c' ->
                              bind (o_bytes x) (fun x' ->
                                bind (o_bytes y) (fun y' ->
                                  bind (o_bytes d) (fun d' -> Ok
                                    (KO_new_ec2_priv_key (c', x', y', d'))))))
                       else bad
                     | _ :: _ -> bad)))))
      | _ -> bad))
| _ -> bad

(** val o_claims_op : value -> claims_op res **)

let o_claims_op = function
| VArray l ->
  (match l with
   | [] -> bad
   | v0 :: args ->
     (match v0 with
      | VText n ->
        let n0 = b2s n in
        (match args with
         | [] -> bad
         | a :: l0 ->
           (match l0 with
            | [] ->
              if eqb n0 (String ((Ascii (true, false, false, true, false,
                   true, true, false)), (String ((Ascii (true, true, false,
                   false, true, true, true, false)), (String ((Ascii (true,
                   true, false, false, true, true, true, false)), (String
                   ((Ascii (true, false, true, false, true, true, true,
                   false)), (String ((Ascii (true, false, true, false, false,
                   true, true, false)), (String ((Ascii (false, true, false,
                   false, true, true, true, false)), EmptyString))))))))))))
              then bind (o_text a) (fun t -> Ok (CO_issuer t))
              else if eqb n0 (String ((Ascii (true, true, false, false, true,
                        true, true, false)), (String ((Ascii (true, false,
                        true, false, true, true, true, false)), (String
                        ((Ascii (false, true, false, false, false, true,
                        true, false)), (String ((Ascii (false, true, false,
                        true, false, true, true, false)), (String ((Ascii
                        (true, false, true, false, false, true, true,
                        false)), (String ((Ascii (true, true, false, false,
                        false, true, true, false)), (String ((Ascii (false,
                        false, true, false, true, true, true, false)),
                        EmptyString))))))))))))))
                   then bind (o_text a) (fun t -> Ok (CO_subject t))
                   else if eqb n0 (String ((Ascii (true, false, false, false,
                             false, true, true, false)), (String ((Ascii
                             (true, false, true, false, true, true, true,
                             false)), (String ((Ascii (false, false, true,
                             false, false, true, true, false)), (String
                             ((Ascii (true, false, false, true, false, true,
                             true, false)), (String ((Ascii (true, false,
                             true, false, false, true, true, false)), (String
                             ((Ascii (false, true, true, true, false, true,
                             true, false)), (String ((Ascii (true, true,
                             false, false, false, true, true, false)),
                             (String ((Ascii (true, false, true, false,
                             false, true, true, false)),
                             EmptyString))))))))))))))))
                        then bind (o_text a) (fun t -> Ok (CO_audience t))
                        else if eqb n0 (String ((Ascii (true, false, true,
                                  false, false, true, true, false)), (String
                                  ((Ascii (false, false, false, true, true,
                                  true, true, false)), (String ((Ascii
                                  (false, false, false, false, true, true,
                                  true, false)), (String ((Ascii (true,
                                  false, false, true, false, true, true,
                                  false)), (String ((Ascii (false, true,
                                  false, false, true, true, true, false)),
                                  (String ((Ascii (true, false, false, false,
                                  false, true, true, false)), (String ((Ascii
                                  (false, false, true, false, true, true,
                                  true, false)), (String ((Ascii (true,
                                  false, false, true, false, true, true,
                                  false)), (String ((Ascii (true, true, true,
                                  true, false, true, true, false)), (String
                                  ((Ascii (false, true, true, true, false,
                                  true, true, false)), (String ((Ascii (true,
                                  true, true, true, true, false, true,
                                  false)), (String ((Ascii (false, false,
                                  true, false, true, true, true, false)),
                                  (String ((Ascii (true, false, false, true,
                                  false, true, true, false)), (String ((Ascii
                                  (true, false, true, true, false, true,
                                  true, false)), (String ((Ascii (true,
                                  false, true, false, false, true, true,
                                  false)),
                                  EmptyString))))))))))))))))))))))))))))))
                             then bind (o_timestamp a) (fun t -> Ok
                                    (CO_expiration_time t))
                             else if eqb n0 (String ((Ascii (false, true,
                                       true, true, false, true, true,
                                       false)), (String ((Ascii (true, true,
                                       true, true, false, true, true,
                                       false)), (String ((Ascii (false,
                                       false, true, false, true, true, true,
                                       false)), (String ((Ascii (true, true,
                                       true, true, true, false, true,
                                       false)), (String ((Ascii (false, true,
                                       false, false, false, true, true,
                                       false)), (String ((Ascii (true, false,
                                       true, false, false, true, true,
                                       false)), (String ((Ascii (false, true,
                                       true, false, false, true, true,
                                       false)), (String ((Ascii (true, true,
                                       true, true, false, true, true,
                                       false)), (String ((Ascii (false, true,
                                       false, false, true, true, true,
                                       false)), (String ((Ascii (true, false,
                                       true, false, false, true, true,
                                       false)),
                                       EmptyString))))))))))))))))))))
                                  then bind (o_timestamp a) (fun t -> Ok
                                         (CO_not_before t))
                                  else if eqb n0 (String ((Ascii (true,
                                            false, false, true, false, true,
                                            true, false)), (String ((Ascii
                                            (true, true, false, false, true,
                                            true, true, false)), (String
                                            ((Ascii (true, true, false,
                                            false, true, true, true, false)),
                                            (String ((Ascii (true, false,
                                            true, false, true, true, true,
                                            false)), (String ((Ascii (true,
                                            false, true, false, false, true,
                                            true, false)), (String ((Ascii
                                            (false, false, true, false,
                                            false, true, true, false)),
                                            (String ((Ascii (true, true,
                                            true, true, true, false, true,
                                            false)), (String ((Ascii (true,
                                            false, false, false, false, true,
                                            true, false)), (String ((Ascii
                                            (false, false, true, false, true,
                                            true, true, false)),
                                            EmptyString))))))))))))))))))
                                       then bind (o_timestamp a) (fun t -> Ok
                                              (CO_issued_at t))
                                       else if eqb n0 (String ((Ascii (true,
                                                 true, false, false, false,
                                                 true, true, false)), (String
                                                 ((Ascii (true, true, true,
                                                 false, true, true, true,
                                                 false)), (String ((Ascii
                                                 (false, false, true, false,
                                                 true, true, true, false)),
                                                 (String ((Ascii (true, true,
                                                 true, true, true, false,
                                                 true, false)), (String
                                                 ((Ascii (true, false, false,
                                                 true, false, true, true,
                                                 false)), (String ((Ascii
                                                 (false, false, true, false,
                                                 false, true, true, false)),
                                                 EmptyString))))))))))))
                                            then bind (o_bytes a) (fun b ->
                                                   Ok (CO_cwt_id b))
                                            else bad
            | x :: l1 ->
              (match l1 with
               | [] ->
                 if eqb n0 (String ((Ascii (true, true, false, false, false,
                      true, true, false)), (String ((Ascii (false, false,
                      true, true, false, true, true, false)), (String ((Ascii
                      (true, false, false, false, false, true, true, false)),
                      (String ((Ascii (true, false, false, true, false, true,
                      true, false)), (String ((Ascii (true, false, true,
                      true, false, true, true, false)), EmptyString))))))))))
                 then bind (o_int a) (fun z -> Ok (CO_claim (z, x)))
                 else if eqb n0 (String ((Ascii (false, false, true, false,
                           true, true, true, false)), (String ((Ascii (true,
                           false, true, false, false, true, true, false)),
                           (String ((Ascii (false, false, false, true, true,
                           true, true, false)), (String ((Ascii (false,
                           false, true, false, true, true, true, false)),
                           (String ((Ascii (true, true, true, true, true,
                           false, true, false)), (String ((Ascii (true, true,
                           false, false, false, true, true, false)), (String
                           ((Ascii (false, false, true, true, false, true,
                           true, false)), (String ((Ascii (true, false,
                           false, false, false, true, true, false)), (String
                           ((Ascii (true, false, false, true, false, true,
                           true, false)), (String ((Ascii (true, false, true,
                           true, false, true, true, false)),
                           EmptyString))))))))))))))))))))
                      then bind (o_text a) (fun t -> Ok (CO_text_claim (t,
                             x)))
                      else if eqb n0 (String ((Ascii (false, false, false,
                                false, true, true, true, false)), (String
                                ((Ascii (false, true, false, false, true,
                                true, true, false)), (String ((Ascii (true,
                                false, false, true, false, true, true,
                                false)), (String ((Ascii (false, true, true,
                                false, true, true, true, false)), (String
                                ((Ascii (true, false, false, false, false,
                                true, true, false)), (String ((Ascii (false,
                                false, true, false, true, true, true,
                                false)), (String ((Ascii (true, false, true,
                                false, false, true, true, false)), (String
                                ((Ascii (true, true, true, true, true, false,
                                true, false)), (String ((Ascii (true, true,
                                false, false, false, true, true, false)),
                                (String ((Ascii (false, false, true, true,
                                false, true, true, false)), (String ((Ascii
                                (true, false, false, false, false, true,
                                true, false)), (String ((Ascii (true, false,
                                false, true, false, true, true, false)),
                                (String ((Ascii (true, false, true, true,
                                false, true, true, false)),
                                EmptyString))))))))))))))))))))))))))
                           then bind (o_int a) (fun z -> Ok (CO_private_claim
                                  (z, x)))
                           else bad
               | _ :: _ -> bad)))
      | _ -> bad))
| _ -> bad

(** val o_party_op : value -> party_op res **)

let o_party_op = function
| VArray l ->
  (match l with
   | [] -> bad
   | v0 :: l0 ->
     (match v0 with
      | VText n ->
        (match l0 with
         | [] -> bad
         | a :: l1 ->
           (match l1 with
            | [] ->
              let n0 = b2s n in
              if eqb n0 (String ((Ascii (true, false, false, true, false,
                   true, true, false)), (String ((Ascii (false, false, true,
                   false, false, true, true, false)), (String ((Ascii (true,
                   false, true, false, false, true, true, false)), (String
                   ((Ascii (false, true, true, true, false, true, true,
                   false)), (String ((Ascii (false, false, true, false, true,
                   true, true, false)), (String ((Ascii (true, false, false,
                   true, false, true, true, false)), (String ((Ascii (false,
                   false, true, false, true, true, true, false)), (String
                   ((Ascii (true, false, false, true, true, true, true,
                   false)), EmptyString))))))))))))))))
              then bind (o_bytes a) (fun b -> Ok (PO_identity b))
              else if eqb n0 (String ((Ascii (false, true, true, true, false,
                        true, true, false)), (String ((Ascii (true, true,
                        true, true, false, true, true, false)), (String
                        ((Ascii (false, true, true, true, false, true, true,
                        false)), (String ((Ascii (true, true, false, false,
                        false, true, true, false)), (String ((Ascii (true,
                        false, true, false, false, true, true, false)),
                        EmptyString))))))))))
                   then bind (o_nonce a) (fun x -> Ok (PO_nonce x))
                   else if eqb n0 (String ((Ascii (true, true, true, true,
                             false, true, true, false)), (String ((Ascii
                             (false, false, true, false, true, true, true,
                             false)), (String ((Ascii (false, false, false,
                             true, false, true, true, false)), (String
                             ((Ascii (true, false, true, false, false, true,
                             true, false)), (String ((Ascii (false, true,
                             false, false, true, true, true, false)),
                             EmptyString))))))))))
                        then bind (o_bytes a) (fun b -> Ok (PO_other b))
                        else bad
            | _ :: _ -> bad))
      | _ -> bad))
| _ -> bad

(** val o_supp_op : value -> supp_op res **)

let o_supp_op = function
| VArray l ->
  (match l with
   | [] -> bad
   | v0 :: l0 ->
     (match v0 with
      | VText n ->
        (match l0 with
         | [] -> bad
         | a :: l1 ->
           (match l1 with
            | [] ->
              let n0 = b2s n in
              if eqb n0 (String ((Ascii (true, true, false, true, false,
                   true, true, false)), (String ((Ascii (true, false, true,
                   false, false, true, true, false)), (String ((Ascii (true,
                   false, false, true, true, true, true, false)), (String
                   ((Ascii (true, true, true, true, true, false, true,
                   false)), (String ((Ascii (false, false, true, false,
                   false, true, true, false)), (String ((Ascii (true, false,
                   false, false, false, true, true, false)), (String ((Ascii
                   (false, false, true, false, true, true, true, false)),
                   (String ((Ascii (true, false, false, false, false, true,
                   true, false)), (String ((Ascii (true, true, true, true,
                   true, false, true, false)), (String ((Ascii (false, false,
                   true, true, false, true, true, false)), (String ((Ascii
                   (true, false, true, false, false, true, true, false)),
                   (String ((Ascii (false, true, true, true, false, true,
                   true, false)), (String ((Ascii (true, true, true, false,
                   false, true, true, false)), (String ((Ascii (false, false,
                   true, false, true, true, true, false)), (String ((Ascii
                   (false, false, false, true, false, true, true, false)),
                   EmptyString))))))))))))))))))))))))))))))
              then bind (o_int a) (fun z -> Ok (UO_key_data_length z))
              else if eqb n0 (String ((Ascii (false, false, false, false,
                        true, true, true, false)), (String ((Ascii (false,
                        true, false, false, true, true, true, false)),
                        (String ((Ascii (true, true, true, true, false, true,
                        true, false)), (String ((Ascii (false, false, true,
                        false, true, true, true, false)), (String ((Ascii
                        (true, false, true, false, false, true, true,
                        false)), (String ((Ascii (true, true, false, false,
                        false, true, true, false)), (String ((Ascii (false,
                        false, true, false, true, true, true, false)),
                        (String ((Ascii (true, false, true, false, false,
                        true, true, false)), (String ((Ascii (false, false,
                        true, false, false, true, true, false)),
                        EmptyString))))))))))))))))))
                   then bind (o_header a) (fun h -> Ok (UO_protected h))
                   else if eqb n0 (String ((Ascii (true, true, true, true,
                             false, true, true, false)), (String ((Ascii
                             (false, false, true, false, true, true, true,
                             false)), (String ((Ascii (false, false, false,
                             true, false, true, true, false)), (String
                             ((Ascii (true, false, true, false, false, true,
                             true, false)), (String ((Ascii (false, true,
                             false, false, true, true, true, false)),
                             EmptyString))))))))))
                        then bind (o_bytes a) (fun b -> Ok (UO_other b))
                        else bad
            | _ :: _ -> bad))
      | _ -> bad))
| _ -> bad

(** val o_kdf_op : value -> kdf_op res **)

let o_kdf_op = function
| VArray l ->
  (match l with
   | [] -> bad
   | v0 :: l0 ->
     (match v0 with
      | VText n ->
        (match l0 with
         | [] -> bad
         | a :: l1 ->
           (match l1 with
            | [] ->
              let n0 = b2s n in
              if eqb n0 (String ((Ascii (false, false, false, false, true,
                   true, true, false)), (String ((Ascii (true, false, false,
                   false, false, true, true, false)), (String ((Ascii (false,
                   true, false, false, true, true, true, false)), (String
                   ((Ascii (false, false, true, false, true, true, true,
                   false)), (String ((Ascii (true, false, false, true, true,
                   true, true, false)), (String ((Ascii (true, true, true,
                   true, true, false, true, false)), (String ((Ascii (true,
                   false, true, false, true, true, true, false)), (String
                   ((Ascii (true, true, true, true, true, false, true,
                   false)), (String ((Ascii (true, false, false, true, false,
                   true, true, false)), (String ((Ascii (false, true, true,
                   true, false, true, true, false)), (String ((Ascii (false,
                   true, true, false, false, true, true, false)), (String
                   ((Ascii (true, true, true, true, false, true, true,
                   false)), EmptyString))))))))))))))))))))))))
              then bind (o_party a) (fun p -> Ok (DO_party_u_info p))
              else if eqb n0 (String ((Ascii (false, false, false, false,
                        true, true, true, false)), (String ((Ascii (true,
                        false, false, false, false, true, true, false)),
                        (String ((Ascii (false, true, false, false, true,
                        true, true, false)), (String ((Ascii (false, false,
                        true, false, true, true, true, false)), (String
                        ((Ascii (true, false, false, true, true, true, true,
                        false)), (String ((Ascii (true, true, true, true,
                        true, false, true, false)), (String ((Ascii (false,
                        true, true, false, true, true, true, false)), (String
                        ((Ascii (true, true, true, true, true, false, true,
                        false)), (String ((Ascii (true, false, false, true,
                        false, true, true, false)), (String ((Ascii (false,
                        true, true, true, false, true, true, false)), (String
                        ((Ascii (false, true, true, false, false, true, true,
                        false)), (String ((Ascii (true, true, true, true,
                        false, true, true, false)),
                        EmptyString))))))))))))))))))))))))
                   then bind (o_party a) (fun p -> Ok (DO_party_v_info p))
                   else if eqb n0 (String ((Ascii (true, true, false, false,
                             true, true, true, false)), (String ((Ascii
                             (true, false, true, false, true, true, true,
                             false)), (String ((Ascii (false, false, false,
                             false, true, true, true, false)), (String
                             ((Ascii (false, false, false, false, true, true,
                             true, false)), (String ((Ascii (true, true,
                             true, true, true, false, true, false)), (String
                             ((Ascii (false, false, false, false, true, true,
                             true, false)), (String ((Ascii (true, false,
                             true, false, true, true, true, false)), (String
                             ((Ascii (false, true, false, false, false, true,
                             true, false)), (String ((Ascii (true, true,
                             true, true, true, false, true, false)), (String
                             ((Ascii (true, false, false, true, false, true,
                             true, false)), (String ((Ascii (false, true,
                             true, true, false, true, true, false)), (String
                             ((Ascii (false, true, true, false, false, true,
                             true, false)), (String ((Ascii (true, true,
                             true, true, false, true, true, false)),
                             EmptyString))))))))))))))))))))))))))
                        then bind (o_supp a) (fun s -> Ok (DO_supp_pub_info
                               s))
                        else if eqb n0 (String ((Ascii (true, false, false,
                                  false, false, true, true, false)), (String
                                  ((Ascii (false, false, true, true, false,
                                  true, true, false)), (String ((Ascii (true,
                                  true, true, false, false, true, true,
                                  false)), (String ((Ascii (true, true, true,
                                  true, false, true, true, false)), (String
                                  ((Ascii (false, true, false, false, true,
                                  true, true, false)), (String ((Ascii (true,
                                  false, false, true, false, true, true,
                                  false)), (String ((Ascii (false, false,
                                  true, false, true, true, true, false)),
                                  (String ((Ascii (false, false, false, true,
                                  false, true, true, false)), (String ((Ascii
                                  (true, false, true, true, false, true,
                                  true, false)), EmptyString))))))))))))))))))
                             then bind (o_int a) (fun z -> Ok (DO_algorithm
                                    z))
                             else if eqb n0 (String ((Ascii (true, false,
                                       false, false, false, true, true,
                                       false)), (String ((Ascii (false,
                                       false, true, false, false, true, true,
                                       false)), (String ((Ascii (false,
                                       false, true, false, false, true, true,
                                       false)), (String ((Ascii (true, true,
                                       true, true, true, false, true,
                                       false)), (String ((Ascii (true, true,
                                       false, false, true, true, true,
                                       false)), (String ((Ascii (true, false,
                                       true, false, true, true, true,
                                       false)), (String ((Ascii (false,
                                       false, false, false, true, true, true,
                                       false)), (String ((Ascii (false,
                                       false, false, false, true, true, true,
                                       false)), (String ((Ascii (true, true,
                                       true, true, true, false, true,
                                       false)), (String ((Ascii (false,
                                       false, false, false, true, true, true,
                                       false)), (String ((Ascii (false, true,
                                       false, false, true, true, true,
                                       false)), (String ((Ascii (true, false,
                                       false, true, false, true, true,
                                       false)), (String ((Ascii (false, true,
                                       true, false, true, true, true,
                                       false)), (String ((Ascii (true, true,
                                       true, true, true, false, true,
                                       false)), (String ((Ascii (true, false,
                                       false, true, false, true, true,
                                       false)), (String ((Ascii (false, true,
                                       true, true, false, true, true,
                                       false)), (String ((Ascii (false, true,
                                       true, false, false, true, true,
                                       false)), (String ((Ascii (true, true,
                                       true, true, false, true, true,
                                       false)),
                                       EmptyString))))))))))))))))))))))))))))))))))))
                                  then bind (o_bytes a) (fun b -> Ok
                                         (DO_add_supp_priv_info b))
                                  else bad
            | _ :: _ -> bad))
      | _ -> bad))
| _ -> bad

(** val show_build : ('a1 -> bytes) -> 'a1 res -> bytes **)

let show_build d = function
| Ok s ->
  app
    (s2b (String ((Ascii (true, true, true, true, false, true, true, false)),
      (String ((Ascii (true, true, false, true, false, true, true, false)),
      (String ((Ascii (false, false, false, false, false, true, false,
      false)), EmptyString))))))) (d s)
| Err e ->
  (match e with
   | EEncode ->
     s2b (String ((Ascii (false, true, true, false, false, true, true,
       false)), (String ((Ascii (true, false, false, false, false, true,
       true, false)), (String ((Ascii (true, false, false, true, false, true,
       true, false)), (String ((Ascii (false, false, true, true, false, true,
       true, false)), EmptyString))))))))
   | _ -> show_err e)
| Panic ->
  s2b (String ((Ascii (false, false, false, false, true, true, true, false)),
    (String ((Ascii (true, false, false, false, false, true, true, false)),
    (String ((Ascii (false, true, true, true, false, true, true, false)),
    (String ((Ascii (true, false, false, true, false, true, true, false)),
    (String ((Ascii (true, true, false, false, false, true, true, false)),
    EmptyString))))))))))
| OutOfFuel ->
  s2b (String ((Ascii (true, true, true, true, false, true, true, false)),
    (String ((Ascii (true, false, true, false, true, true, true, false)),
    (String ((Ascii (false, false, true, false, true, true, true, false)),
    (String ((Ascii (true, true, true, true, false, true, true, false)),
    (String ((Ascii (false, true, true, false, false, true, true, false)),
    (String ((Ascii (false, true, true, false, false, true, true, false)),
    (String ((Ascii (true, false, true, false, true, true, true, false)),
    (String ((Ascii (true, false, true, false, false, true, true, false)),
    (String ((Ascii (false, false, true, true, false, true, true, false)),
    EmptyString))))))))))))))))))

(** val run_build :
    (value -> 'a2 res) -> ('a1 -> 'a2 -> 'a1 res) -> 'a1 -> value -> 'a1 res **)

let run_build oop step init opsv =
  match o_list oop opsv with
  | Ok ops -> run_ops step ops init
  | _ -> Err EUnexpected

(** val sv : ('a1 -> value) -> 'a1 -> bytes **)

let sv d x =
  show_value (d x)

(** val build_case : string -> value -> bytes **)

let build_case bt opsv =
  if eqb bt (String ((Ascii (false, false, false, true, false, false, true,
       false)), (String ((Ascii (true, false, true, false, false, true, true,
       false)), (String ((Ascii (true, false, false, false, false, true,
       true, false)), (String ((Ascii (false, false, true, false, false,
       true, true, false)), (String ((Ascii (true, false, true, false, false,
       true, true, false)), (String ((Ascii (false, true, false, false, true,
       true, true, false)), EmptyString))))))))))))
  then show_build (sv d_header)
         (run_build o_header_op header_builder_step header_default opsv)
  else if eqb bt (String ((Ascii (true, true, false, false, false, false,
            true, false)), (String ((Ascii (true, true, true, true, false,
            true, true, false)), (String ((Ascii (true, true, false, false,
            true, true, true, false)), (String ((Ascii (true, false, true,
            false, false, true, true, false)), (String ((Ascii (true, true,
            false, false, true, false, true, false)), (String ((Ascii (true,
            false, false, true, false, true, true, false)), (String ((Ascii
            (true, true, true, false, false, true, true, false)), (String
            ((Ascii (false, true, true, true, false, true, true, false)),
            (String ((Ascii (true, false, false, false, false, true, true,
            false)), (String ((Ascii (false, false, true, false, true, true,
            true, false)), (String ((Ascii (true, false, true, false, true,
            true, true, false)), (String ((Ascii (false, true, false, false,
            true, true, true, false)), (String ((Ascii (true, false, true,
            false, false, true, true, false)),
            EmptyString))))))))))))))))))))))))))
       then show_build (sv d_signature)
              (run_build o_signature_op signature_builder_step
                signature_default opsv)
       else if eqb bt (String ((Ascii (true, true, false, false, false,
                 false, true, false)), (String ((Ascii (true, true, true,
                 true, false, true, true, false)), (String ((Ascii (true,
                 true, false, false, true, true, true, false)), (String
                 ((Ascii (true, false, true, false, false, true, true,
                 false)), (String ((Ascii (true, true, false, false, true,
                 false, true, false)), (String ((Ascii (true, false, false,
                 true, false, true, true, false)), (String ((Ascii (true,
                 true, true, false, false, true, true, false)), (String
                 ((Ascii (false, true, true, true, false, true, true,
                 false)), (String ((Ascii (true, false, false, false, true,
                 true, false, false)), EmptyString))))))))))))))))))
            then show_build (sv d_sign1)
                   (run_build o_sign1_op sign1_builder_step { s1_prot =
                     protected_default; s1_unprot = header_default;
                     s1_payload = None; s1_sig = [] } opsv)
            else if eqb bt (String ((Ascii (true, true, false, false, false,
                      false, true, false)), (String ((Ascii (true, true,
                      true, true, false, true, true, false)), (String ((Ascii
                      (true, true, false, false, true, true, true, false)),
                      (String ((Ascii (true, false, true, false, false, true,
                      true, false)), (String ((Ascii (true, true, false,
                      false, true, false, true, false)), (String ((Ascii
                      (true, false, false, true, false, true, true, false)),
                      (String ((Ascii (true, true, true, false, false, true,
                      true, false)), (String ((Ascii (false, true, true,
                      true, false, true, true, false)),
                      EmptyString))))))))))))))))
                 then show_build (sv d_sign)
                        (run_build o_sign_op sign_builder_step { sn_prot =
                          protected_default; sn_unprot = header_default;
                          sn_payload = None; sn_sigs = [] } opsv)
                 else if eqb bt (String ((Ascii (true, true, false, false,
                           false, false, true, false)), (String ((Ascii
                           (true, true, true, true, false, true, true,
                           false)), (String ((Ascii (true, true, false,
                           false, true, true, true, false)), (String ((Ascii
                           (true, false, true, false, false, true, true,
                           false)), (String ((Ascii (true, false, true, true,
                           false, false, true, false)), (String ((Ascii
                           (true, false, false, false, false, true, true,
                           false)), (String ((Ascii (true, true, false,
                           false, false, true, true, false)), (String ((Ascii
                           (false, false, false, false, true, true, false,
                           false)), EmptyString))))))))))))))))
                      then show_build (sv d_mac0)
                             (run_build o_mac0_op mac0_builder_step
                               { m0_prot = protected_default; m0_unprot =
                               header_default; m0_payload = None; m0_tag =
                               [] } opsv)
                      else if eqb bt (String ((Ascii (true, true, false,
                                false, false, false, true, false)), (String
                                ((Ascii (true, true, true, true, false, true,
                                true, false)), (String ((Ascii (true, true,
                                false, false, true, true, true, false)),
                                (String ((Ascii (true, false, true, false,
                                false, true, true, false)), (String ((Ascii
                                (true, false, true, true, false, false, true,
                                false)), (String ((Ascii (true, false, false,
                                false, false, true, true, false)), (String
                                ((Ascii (true, true, false, false, false,
                                true, true, false)), EmptyString))))))))))))))
                           then show_build (sv d_mac)
                                  (run_build o_mac_op mac_builder_step
                                    { mc_prot = protected_default;
                                    mc_unprot = header_default; mc_payload =
                                    None; mc_tag = []; mc_recipients = [] }
                                    opsv)
                           else if eqb bt (String ((Ascii (true, true, false,
                                     false, false, false, true, false)),
                                     (String ((Ascii (true, true, true, true,
                                     false, true, true, false)), (String
                                     ((Ascii (true, true, false, false, true,
                                     true, true, false)), (String ((Ascii
                                     (true, false, true, false, false, true,
                                     true, false)), (String ((Ascii (false,
                                     true, false, false, true, false, true,
                                     false)), (String ((Ascii (true, false,
                                     true, false, false, true, true, false)),
                                     (String ((Ascii (true, true, false,
                                     false, false, true, true, false)),
                                     (String ((Ascii (true, false, false,
                                     true, false, true, true, false)),
                                     (String ((Ascii (false, false, false,
                                     false, true, true, true, false)),
                                     (String ((Ascii (true, false, false,
                                     true, false, true, true, false)),
                                     (String ((Ascii (true, false, true,
                                     false, false, true, true, false)),
                                     (String ((Ascii (false, true, true,
                                     true, false, true, true, false)),
                                     (String ((Ascii (false, false, true,
                                     false, true, true, true, false)),
                                     EmptyString))))))))))))))))))))))))))
                                then show_build (sv d_recipient)
                                       (run_build o_recipient_op
                                         recipient_builder_step { r_prot =
                                         protected_default; r_unprot =
                                         header_default; r_ct = None;
                                         r_recipients = [] } opsv)
                                else if eqb bt (String ((Ascii (true, true,
                                          false, false, false, false, true,
                                          false)), (String ((Ascii (true,
                                          true, true, true, false, true,
                                          true, false)), (String ((Ascii
                                          (true, true, false, false, true,
                                          true, true, false)), (String
                                          ((Ascii (true, false, true, false,
                                          false, true, true, false)), (String
                                          ((Ascii (true, false, true, false,
                                          false, false, true, false)),
                                          (String ((Ascii (false, true, true,
                                          true, false, true, true, false)),
                                          (String ((Ascii (true, true, false,
                                          false, false, true, true, false)),
                                          (String ((Ascii (false, true,
                                          false, false, true, true, true,
                                          false)), (String ((Ascii (true,
                                          false, false, true, true, true,
                                          true, false)), (String ((Ascii
                                          (false, false, false, false, true,
                                          true, true, false)), (String
                                          ((Ascii (false, false, true, false,
                                          true, true, true, false)),
                                          EmptyString))))))))))))))))))))))
                                     then show_build (sv d_encrypt)
                                            (run_build o_encrypt_op
                                              encrypt_builder_step
                                              { en_prot = protected_default;
                                              en_unprot = header_default;
                                              en_ct = None; en_recipients =
                                              [] } opsv)
                                     else if eqb bt (String ((Ascii (true,
                                               true, false, false, false,
                                               false, true, false)), (String
                                               ((Ascii (true, true, true,
                                               true, false, true, true,
                                               false)), (String ((Ascii
                                               (true, true, false, false,
                                               true, true, true, false)),
                                               (String ((Ascii (true, false,
                                               true, false, false, true,
                                               true, false)), (String ((Ascii
                                               (true, false, true, false,
                                               false, false, true, false)),
                                               (String ((Ascii (false, true,
                                               true, true, false, true, true,
                                               false)), (String ((Ascii
                                               (true, true, false, false,
                                               false, true, true, false)),
                                               (String ((Ascii (false, true,
                                               false, false, true, true,
                                               true, false)), (String ((Ascii
                                               (true, false, false, true,
                                               true, true, true, false)),
                                               (String ((Ascii (false, false,
                                               false, false, true, true,
                                               true, false)), (String ((Ascii
                                               (false, false, true, false,
                                               true, true, true, false)),
                                               (String ((Ascii (false, false,
                                               false, false, true, true,
                                               false, false)),
                                               EmptyString))))))))))))))))))))))))
                                          then show_build (sv d_encrypt0)
                                                 (run_build o_encrypt0_op
                                                   encrypt0_builder_step
                                                   { e0_prot =
                                                   protected_default;
                                                   e0_unprot =
                                                   header_default; e0_ct =
                                                   None } opsv)
                                          else if eqb bt (String ((Ascii
                                                    (true, true, false,
                                                    false, false, false,
                                                    true, false)), (String
                                                    ((Ascii (true, true,
                                                    true, true, false, true,
                                                    true, false)), (String
                                                    ((Ascii (true, true,
                                                    false, false, true, true,
                                                    true, false)), (String
                                                    ((Ascii (true, false,
                                                    true, false, false, true,
                                                    true, false)), (String
                                                    ((Ascii (true, true,
                                                    false, true, false,
                                                    false, true, false)),
                                                    (String ((Ascii (true,
                                                    false, true, false,
                                                    false, true, true,
                                                    false)), (String ((Ascii
                                                    (true, false, false,
                                                    true, true, true, true,
                                                    false)),
                                                    EmptyString))))))))))))))
                                               then show_build (sv d_key)
                                                      (run_build o_key_op
                                                        key_builder_step
                                                        key_default opsv)
                                               else if eqb bt (String ((Ascii
                                                         (true, true, false,
                                                         false, false, false,
                                                         true, false)),
                                                         (String ((Ascii
                                                         (false, false, true,
                                                         true, false, true,
                                                         true, false)),
                                                         (String ((Ascii
                                                         (true, false, false,
                                                         false, false, true,
                                                         true, false)),
                                                         (String ((Ascii
                                                         (true, false, false,
                                                         true, false, true,
                                                         true, false)),
                                                         (String ((Ascii
                                                         (true, false, true,
                                                         true, false, true,
                                                         true, false)),
                                                         (String ((Ascii
                                                         (true, true, false,
                                                         false, true, true,
                                                         true, false)),
                                                         (String ((Ascii
                                                         (true, true, false,
                                                         false, true, false,
                                                         true, false)),
                                                         (String ((Ascii
                                                         (true, false, true,
                                                         false, false, true,
                                                         true, false)),
                                                         (String ((Ascii
                                                         (false, false, true,
                                                         false, true, true,
                                                         true, false)),
                                                         EmptyString))))))))))))))))))
                                                    then show_build
                                                           (sv d_claims)
                                                           (run_build
                                                             o_claims_op
                                                             claims_builder_step
                                                             claims_default
                                                             opsv)
                                                    else if eqb bt (String
                                                              ((Ascii (false,
                                                              false, false,
                                                              false, true,
                                                              false, true,
                                                              false)),
                                                              (String ((Ascii
                                                              (true, false,
                                                              false, false,
                                                              false, true,
                                                              true, false)),
                                                              (String ((Ascii
                                                              (false, true,
                                                              false, false,
                                                              true, true,
                                                              true, false)),
                                                              (String ((Ascii
                                                              (false, false,
                                                              true, false,
                                                              true, true,
                                                              true, false)),
                                                              (String ((Ascii
                                                              (true, false,
                                                              false, true,
                                                              true, true,
                                                              true, false)),
                                                              (String ((Ascii
                                                              (true, false,
                                                              false, true,
                                                              false, false,
                                                              true, false)),
                                                              (String ((Ascii
                                                              (false, true,
                                                              true, true,
                                                              false, true,
                                                              true, false)),
                                                              (String ((Ascii
                                                              (false, true,
                                                              true, false,
                                                              false, true,
                                                              true, false)),
                                                              (String ((Ascii
                                                              (true, true,
                                                              true, true,
                                                              false, true,
                                                              true, false)),
                                                              EmptyString))))))))))))))))))
                                                         then show_build
                                                                (sv d_party)
                                                                (run_build
                                                                  o_party_op
                                                                  party_builder_step
                                                                  party_default
                                                                  opsv)
                                                         else if eqb bt
                                                                   (String
                                                                   ((Ascii
                                                                   (true,
                                                                   true,
                                                                   false,
                                                                   false,
                                                                   true,
                                                                   false,
                                                                   true,
                                                                   false)),
                                                                   (String
                                                                   ((Ascii
                                                                   (true,
                                                                   false,
                                                                   true,
                                                                   false,
                                                                   true,
                                                                   true,
                                                                   true,
                                                                   false)),
                                                                   (String
                                                                   ((Ascii
                                                                   (false,
                                                                   false,
                                                                   false,
                                                                   false,
                                                                   true,
                                                                   true,
                                                                   true,
                                                                   false)),
                                                                   (String
                                                                   ((Ascii
                                                                   (false,
                                                                   false,
                                                                   false,
                                                                   false,
                                                                   true,
                                                                   true,
                                                                   true,
                                                                   false)),
                                                                   (String
                                                                   ((Ascii
                                                                   (false,
                                                                   false,
                                                                   false,
                                                                   false,
                                                                   true,
                                                                   false,
                                                                   true,
                                                                   false)),
                                                                   (String
                                                                   ((Ascii
                                                                   (true,
                                                                   false,
                                                                   true,
                                                                   false,
                                                                   true,
                                                                   true,
                                                                   true,
                                                                   false)),
                                                                   (String
                                                                   ((Ascii
                                                                   (false,
                                                                   true,
                                                                   false,
                                                                   false,
                                                                   false,
                                                                   true,
                                                                   true,
                                                                   false)),
                                                                   (String
                                                                   ((Ascii
                                                                   (true,
                                                                   false,
                                                                   false,
                                                                   true,
                                                                   false,
                                                                   false,
                                                                   true,
                                                                   false)),
                                                                   (String
                                                                   ((Ascii
                                                                   (false,
                                                                   true,
                                                                   true,
                                                                   true,
                                                                   false,
                                                                   true,
                                                                   true,
                                                                   false)),
                                                                   (String
                                                                   ((Ascii
                                                                   (false,
                                                                   true,
                                                                   true,
                                                                   false,
                                                                   false,
                                                                   true,
                                                                   true,
                                                                   false)),
                                                                   (String
                                                                   ((Ascii
                                                                   (true,
                                                                   true,
                                                                   true,
                                                                   true,
                                                                   false,
                                                                   true,
                                                                   true,
                                                                   false)),
                                                                   EmptyString))))))))))))))))))))))
                                                              then show_build
                                                                    (sv
                                                                    d_supp)
                                                                    (run_build
                                                                    o_supp_op
                                                                    supp_builder_step
                                                                    supp_default
                                                                    opsv)
                                                              else if 
                                                                    eqb bt
                                                                    (String
                                                                    ((Ascii
                                                                    (true,
                                                                    true,
                                                                    false,
                                                                    false,
                                                                    false,
                                                                    false,
                                                                    true,
                                                                    false)),
                                                                    (String
                                                                    ((Ascii
                                                                    (true,
                                                                    true,
                                                                    true,
                                                                    true,
                                                                    false,
                                                                    true,
                                                                    true,
                                                                    false)),
                                                                    (String
                                                                    ((Ascii
                                                                    (true,
                                                                    true,
                                                                    false,
                                                                    false,
                                                                    true,
                                                                    true,
                                                                    true,
                                                                    false)),
                                                                    (String
                                                                    ((Ascii
                                                                    (true,
                                                                    false,
                                                                    true,
                                                                    false,
                                                                    false,
                                                                    true,
                                                                    true,
                                                                    false)),
                                                                    (String
                                                                    ((Ascii
                                                                    (true,
                                                                    true,
                                                                    false,
                                                                    true,
                                                                    false,
                                                                    false,
                                                                    true,
                                                                    false)),
                                                                    (String
                                                                    ((Ascii
                                                                    (false,
                                                                    false,
                                                                    true,
                                                                    false,
                                                                    false,
                                                                    true,
                                                                    true,
                                                                    false)),
                                                                    (String
                                                                    ((Ascii
                                                                    (false,
                                                                    true,
                                                                    true,
                                                                    false,
                                                                    false,
                                                                    true,
                                                                    true,
                                                                    false)),
                                                                    (String
                                                                    ((Ascii
                                                                    (true,
                                                                    true,
                                                                    false,
                                                                    false,
                                                                    false,
                                                                    false,
                                                                    true,
                                                                    false)),
                                                                    (String
                                                                    ((Ascii
                                                                    (true,
                                                                    true,
                                                                    true,
                                                                    true,
                                                                    false,
                                                                    true,
                                                                    true,
                                                                    false)),
                                                                    (String
                                                                    ((Ascii
                                                                    (false,
                                                                    true,
                                                                    true,
                                                                    true,
                                                                    false,
                                                                    true,
                                                                    true,
                                                                    false)),
                                                                    (String
                                                                    ((Ascii
                                                                    (false,
                                                                    false,
                                                                    true,
                                                                    false,
                                                                    true,
                                                                    true,
                                                                    true,
                                                                    false)),
                                                                    (String
                                                                    ((Ascii
                                                                    (true,
                                                                    false,
                                                                    true,
                                                                    false,
                                                                    false,
                                                                    true,
                                                                    true,
                                                                    false)),
                                                                    (String
                                                                    ((Ascii
                                                                    (false,
                                                                    false,
                                                                    false,
                                                                    true,
                                                                    true,
                                                                    true,
                                                                    true,
                                                                    false)),
                                                                    (String
                                                                    ((Ascii
                                                                    (false,
                                                                    false,
                                                                    true,
                                                                    false,
                                                                    true,
                                                                    true,
                                                                    true,
                                                                    false)),
                                                                    EmptyString))))))))))))))))))))))))))))
                                                                   then 
                                                                    show_build
                                                                    (fun k ->
                                                                    app
                                                                    (s2b
                                                                    (String
                                                                    ((Ascii
                                                                    (true,
                                                                    false,
                                                                    true,
                                                                    false,
                                                                    false,
                                                                    true,
                                                                    true,
                                                                    false)),
                                                                    (String
                                                                    ((Ascii
                                                                    (false,
                                                                    true,
                                                                    true,
                                                                    true,
                                                                    false,
                                                                    true,
                                                                    true,
                                                                    false)),
                                                                    (String
                                                                    ((Ascii
                                                                    (true,
                                                                    true,
                                                                    false,
                                                                    false,
                                                                    false,
                                                                    true,
                                                                    true,
                                                                    false)),
                                                                    (String
                                                                    ((Ascii
                                                                    (true,
                                                                    false,
                                                                    true,
                                                                    true,
                                                                    true,
                                                                    true,
                                                                    false,
                                                                    false)),
                                                                    EmptyString)))))))))
                                                                    (match 
                                                                    to_vec
                                                                    coq_CoseKdfContext_to_value
                                                                    k with
                                                                    | Ok b ->
                                                                    show_hex b
                                                                    | _ ->
                                                                    s2b
                                                                    (String
                                                                    ((Ascii
                                                                    (true,
                                                                    true,
                                                                    true,
                                                                    true,
                                                                    true,
                                                                    true,
                                                                    false,
                                                                    false)),
                                                                    EmptyString))))
                                                                    (run_build
                                                                    o_kdf_op
                                                                    kdf_builder_step
                                                                    kdf_default
                                                                    opsv)
                                                                   else 
                                                                    badcase

(** val nat_of_arg : bytes -> nat **)

let nat_of_arg = function
| [] -> O
| x :: l -> (match l with
             | [] -> N.to_nat (b2n x)
             | _ :: _ -> O)

(** val show_rec : bytes res -> bytes **)

let show_rec r =
  show_res (fun x -> x) r

(** val helper_case :
    string -> value res -> bool -> bytes -> bytes list -> bytes **)

let helper_case fn msg src_hex raw args =
  let get = fun _ from od ->
    if src_hex then bind (read_to_value raw) from else bind msg od
  in
  if eqb fn (String ((Ascii (true, true, false, false, true, true, true,
       false)), (String ((Ascii (true, false, false, true, false, true, true,
       false)), (String ((Ascii (true, true, true, false, false, true, true,
       false)), (String ((Ascii (false, true, true, true, false, true, true,
       false)), (String ((Ascii (true, false, false, false, true, true,
       false, false)), (String ((Ascii (false, true, true, true, false, true,
       false, false)), (String ((Ascii (false, false, true, false, true,
       true, true, false)), (String ((Ascii (false, true, false, false,
       false, true, true, false)), (String ((Ascii (true, true, false, false,
       true, true, true, false)), (String ((Ascii (true, true, true, true,
       true, false, true, false)), (String ((Ascii (false, false, true,
       false, false, true, true, false)), (String ((Ascii (true, false,
       false, false, false, true, true, false)), (String ((Ascii (false,
       false, true, false, true, true, true, false)), (String ((Ascii (true,
       false, false, false, false, true, true, false)),
       EmptyString))))))))))))))))))))))))))))
  then (match get (String ((Ascii (true, true, false, false, false, false,
                true, false)), (String ((Ascii (true, true, true, true,
                false, true, true, false)), (String ((Ascii (true, true,
                false, false, true, true, true, false)), (String ((Ascii
                (true, false, true, false, false, true, true, false)),
                (String ((Ascii (true, true, false, false, true, false, true,
                false)), (String ((Ascii (true, false, false, true, false,
                true, true, false)), (String ((Ascii (true, true, true,
                false, false, true, true, false)), (String ((Ascii (false,
                true, true, true, false, true, true, false)), (String ((Ascii
                (true, false, false, false, true, true, false, false)),
                EmptyString)))))))))))))))))) coq_CoseSign1_from_value o_sign1 with
        | Ok m ->
          (match args with
           | [] -> badcase
           | aad :: l ->
             (match l with
              | [] -> show_res show_hex (coq_Sign1_tbs_data m aad)
              | _ :: _ -> badcase))
        | Err e ->
          app
            (s2b (String ((Ascii (false, true, true, true, false, true, true,
              false)), (String ((Ascii (true, true, true, true, false, true,
              true, false)), (String ((Ascii (true, false, true, true, false,
              true, true, false)), (String ((Ascii (true, true, false, false,
              true, true, true, false)), (String ((Ascii (true, true, true,
              false, false, true, true, false)), (String ((Ascii (false,
              false, false, false, false, true, false, false)),
              EmptyString))))))))))))) (show_res (fun _ -> []) (Err e))
        | Panic ->
          app
            (s2b (String ((Ascii (false, true, true, true, false, true, true,
              false)), (String ((Ascii (true, true, true, true, false, true,
              true, false)), (String ((Ascii (true, false, true, true, false,
              true, true, false)), (String ((Ascii (true, true, false, false,
              true, true, true, false)), (String ((Ascii (true, true, true,
              false, false, true, true, false)), (String ((Ascii (false,
              false, false, false, false, true, false, false)),
              EmptyString))))))))))))) (show_res (fun _ -> []) Panic)
        | OutOfFuel ->
          app
            (s2b (String ((Ascii (false, true, true, true, false, true, true,
              false)), (String ((Ascii (true, true, true, true, false, true,
              true, false)), (String ((Ascii (true, false, true, true, false,
              true, true, false)), (String ((Ascii (true, true, false, false,
              true, true, true, false)), (String ((Ascii (true, true, true,
              false, false, true, true, false)), (String ((Ascii (false,
              false, false, false, false, true, false, false)),
              EmptyString))))))))))))) (show_res (fun _ -> []) OutOfFuel))
  else if eqb fn (String ((Ascii (true, true, false, false, true, true, true,
            false)), (String ((Ascii (true, false, false, true, false, true,
            true, false)), (String ((Ascii (true, true, true, false, false,
            true, true, false)), (String ((Ascii (false, true, true, true,
            false, true, true, false)), (String ((Ascii (true, false, false,
            false, true, true, false, false)), (String ((Ascii (false, true,
            true, true, false, true, false, false)), (String ((Ascii (false,
            false, true, false, true, true, true, false)), (String ((Ascii
            (false, true, false, false, false, true, true, false)), (String
            ((Ascii (true, true, false, false, true, true, true, false)),
            (String ((Ascii (true, true, true, true, true, false, true,
            false)), (String ((Ascii (false, false, true, false, false, true,
            true, false)), (String ((Ascii (true, false, true, false, false,
            true, true, false)), (String ((Ascii (false, false, true, false,
            true, true, true, false)), (String ((Ascii (true, false, false,
            false, false, true, true, false)), (String ((Ascii (true, true,
            false, false, false, true, true, false)), (String ((Ascii (false,
            false, false, true, false, true, true, false)), (String ((Ascii
            (true, false, true, false, false, true, true, false)), (String
            ((Ascii (false, false, true, false, false, true, true, false)),
            (String ((Ascii (true, true, true, true, true, false, true,
            false)), (String ((Ascii (false, false, true, false, false, true,
            true, false)), (String ((Ascii (true, false, false, false, false,
            true, true, false)), (String ((Ascii (false, false, true, false,
            true, true, true, false)), (String ((Ascii (true, false, false,
            false, false, true, true, false)),
            EmptyString))))))))))))))))))))))))))))))))))))))))))))))
       then (match get (String ((Ascii (true, true, false, false, false,
                     false, true, false)), (String ((Ascii (true, true, true,
                     true, false, true, true, false)), (String ((Ascii (true,
                     true, false, false, true, true, true, false)), (String
                     ((Ascii (true, false, true, false, false, true, true,
                     false)), (String ((Ascii (true, true, false, false,
                     true, false, true, false)), (String ((Ascii (true,
                     false, false, true, false, true, true, false)), (String
                     ((Ascii (true, true, true, false, false, true, true,
                     false)), (String ((Ascii (false, true, true, true,
                     false, true, true, false)), (String ((Ascii (true,
                     false, false, false, true, true, false, false)),
                     EmptyString)))))))))))))))))) coq_CoseSign1_from_value
                     o_sign1 with
             | Ok m ->
               (match args with
                | [] -> badcase
                | pl :: l ->
                  (match l with
                   | [] -> badcase
                   | aad :: l0 ->
                     (match l0 with
                      | [] ->
                        show_res show_hex
                          (coq_Sign1_tbs_detached_data m pl aad)
                      | _ :: _ -> badcase)))
             | Err e ->
               app
                 (s2b (String ((Ascii (false, true, true, true, false, true,
                   true, false)), (String ((Ascii (true, true, true, true,
                   false, true, true, false)), (String ((Ascii (true, false,
                   true, true, false, true, true, false)), (String ((Ascii
                   (true, true, false, false, true, true, true, false)),
                   (String ((Ascii (true, true, true, false, false, true,
                   true, false)), (String ((Ascii (false, false, false,
                   false, false, true, false, false)),
                   EmptyString))))))))))))) (show_res (fun _ -> []) (Err e))
             | Panic ->
               app
                 (s2b (String ((Ascii (false, true, true, true, false, true,
                   true, false)), (String ((Ascii (true, true, true, true,
                   false, true, true, false)), (String ((Ascii (true, false,
                   true, true, false, true, true, false)), (String ((Ascii
                   (true, true, false, false, true, true, true, false)),
                   (String ((Ascii (true, true, true, false, false, true,
                   true, false)), (String ((Ascii (false, false, false,
                   false, false, true, false, false)),
                   EmptyString))))))))))))) (show_res (fun _ -> []) Panic)
             | OutOfFuel ->
               app
                 (s2b (String ((Ascii (false, true, true, true, false, true,
                   true, false)), (String ((Ascii (true, true, true, true,
                   false, true, true, false)), (String ((Ascii (true, false,
                   true, true, false, true, true, false)), (String ((Ascii
                   (true, true, false, false, true, true, true, false)),
                   (String ((Ascii (true, true, true, false, false, true,
                   true, false)), (String ((Ascii (false, false, false,
                   false, false, true, false, false)),
                   EmptyString))))))))))))) (show_res (fun _ -> []) OutOfFuel))
       else if eqb fn (String ((Ascii (true, true, false, false, true, true,
                 true, false)), (String ((Ascii (true, false, false, true,
                 false, true, true, false)), (String ((Ascii (true, true,
                 true, false, false, true, true, false)), (String ((Ascii
                 (false, true, true, true, false, true, true, false)),
                 (String ((Ascii (true, false, false, false, true, true,
                 false, false)), (String ((Ascii (false, true, true, true,
                 false, true, false, false)), (String ((Ascii (false, true,
                 true, false, true, true, true, false)), (String ((Ascii
                 (true, false, true, false, false, true, true, false)),
                 (String ((Ascii (false, true, false, false, true, true,
                 true, false)), (String ((Ascii (true, false, false, true,
                 false, true, true, false)), (String ((Ascii (false, true,
                 true, false, false, true, true, false)), (String ((Ascii
                 (true, false, false, true, true, true, true, false)),
                 (String ((Ascii (true, true, true, true, true, false, true,
                 false)), (String ((Ascii (true, true, false, false, true,
                 true, true, false)), (String ((Ascii (true, false, false,
                 true, false, true, true, false)), (String ((Ascii (true,
                 true, true, false, false, true, true, false)), (String
                 ((Ascii (false, true, true, true, false, true, true,
                 false)), (String ((Ascii (true, false, false, false, false,
                 true, true, false)), (String ((Ascii (false, false, true,
                 false, true, true, true, false)), (String ((Ascii (true,
                 false, true, false, true, true, true, false)), (String
                 ((Ascii (false, true, false, false, true, true, true,
                 false)), (String ((Ascii (true, false, true, false, false,
                 true, true, false)),
                 EmptyString))))))))))))))))))))))))))))))))))))))))))))
            then (match get (String ((Ascii (true, true, false, false, false,
                          false, true, false)), (String ((Ascii (true, true,
                          true, true, false, true, true, false)), (String
                          ((Ascii (true, true, false, false, true, true,
                          true, false)), (String ((Ascii (true, false, true,
                          false, false, true, true, false)), (String ((Ascii
                          (true, true, false, false, true, false, true,
                          false)), (String ((Ascii (true, false, false, true,
                          false, true, true, false)), (String ((Ascii (true,
                          true, true, false, false, true, true, false)),
                          (String ((Ascii (false, true, true, true, false,
                          true, true, false)), (String ((Ascii (true, false,
                          false, false, true, true, false, false)),
                          EmptyString))))))))))))))))))
                          coq_CoseSign1_from_value o_sign1 with
                  | Ok m ->
                    (match args with
                     | [] -> badcase
                     | aad :: l ->
                       (match l with
                        | [] ->
                          show_rec (coq_Sign1_verify_signature m aad record2)
                        | _ :: _ -> badcase))
                  | Err e ->
                    app
                      (s2b (String ((Ascii (false, true, true, true, false,
                        true, true, false)), (String ((Ascii (true, true,
                        true, true, false, true, true, false)), (String
                        ((Ascii (true, false, true, true, false, true, true,
                        false)), (String ((Ascii (true, true, false, false,
                        true, true, true, false)), (String ((Ascii (true,
                        true, true, false, false, true, true, false)),
                        (String ((Ascii (false, false, false, false, false,
                        true, false, false)), EmptyString)))))))))))))
                      (show_res (fun _ -> []) (Err e))
                  | Panic ->
                    app
                      (s2b (String ((Ascii (false, true, true, true, false,
                        true, true, false)), (String ((Ascii (true, true,
                        true, true, false, true, true, false)), (String
                        ((Ascii (true, false, true, true, false, true, true,
                        false)), (String ((Ascii (true, true, false, false,
                        true, true, true, false)), (String ((Ascii (true,
                        true, true, false, false, true, true, false)),
                        (String ((Ascii (false, false, false, false, false,
                        true, false, false)), EmptyString)))))))))))))
                      (show_res (fun _ -> []) Panic)
                  | OutOfFuel ->
                    app
                      (s2b (String ((Ascii (false, true, true, true, false,
                        true, true, false)), (String ((Ascii (true, true,
                        true, true, false, true, true, false)), (String
                        ((Ascii (true, false, true, true, false, true, true,
                        false)), (String ((Ascii (true, true, false, false,
                        true, true, true, false)), (String ((Ascii (true,
                        true, true, false, false, true, true, false)),
                        (String ((Ascii (false, false, false, false, false,
                        true, false, false)), EmptyString)))))))))))))
                      (show_res (fun _ -> []) OutOfFuel))
            else if eqb fn (String ((Ascii (true, true, false, false, true,
                      true, true, false)), (String ((Ascii (true, false,
                      false, true, false, true, true, false)), (String
                      ((Ascii (true, true, true, false, false, true, true,
                      false)), (String ((Ascii (false, true, true, true,
                      false, true, true, false)), (String ((Ascii (true,
                      false, false, false, true, true, false, false)),
                      (String ((Ascii (false, true, true, true, false, true,
                      false, false)), (String ((Ascii (false, true, true,
                      false, true, true, true, false)), (String ((Ascii
                      (true, false, true, false, false, true, true, false)),
                      (String ((Ascii (false, true, false, false, true, true,
                      true, false)), (String ((Ascii (true, false, false,
                      true, false, true, true, false)), (String ((Ascii
                      (false, true, true, false, false, true, true, false)),
                      (String ((Ascii (true, false, false, true, true, true,
                      true, false)), (String ((Ascii (true, true, true, true,
                      true, false, true, false)), (String ((Ascii (false,
                      false, true, false, false, true, true, false)), (String
                      ((Ascii (true, false, true, false, false, true, true,
                      false)), (String ((Ascii (false, false, true, false,
                      true, true, true, false)), (String ((Ascii (true,
                      false, false, false, false, true, true, false)),
                      (String ((Ascii (true, true, false, false, false, true,
                      true, false)), (String ((Ascii (false, false, false,
                      true, false, true, true, false)), (String ((Ascii
                      (true, false, true, false, false, true, true, false)),
                      (String ((Ascii (false, false, true, false, false,
                      true, true, false)), (String ((Ascii (true, true, true,
                      true, true, false, true, false)), (String ((Ascii
                      (true, true, false, false, true, true, true, false)),
                      (String ((Ascii (true, false, false, true, false, true,
                      true, false)), (String ((Ascii (true, true, true,
                      false, false, true, true, false)), (String ((Ascii
                      (false, true, true, true, false, true, true, false)),
                      (String ((Ascii (true, false, false, false, false,
                      true, true, false)), (String ((Ascii (false, false,
                      true, false, true, true, true, false)), (String ((Ascii
                      (true, false, true, false, true, true, true, false)),
                      (String ((Ascii (false, true, false, false, true, true,
                      true, false)), (String ((Ascii (true, false, true,
                      false, false, true, true, false)),
                      EmptyString))))))))))))))))))))))))))))))))))))))))))))))))))))))))))))))
                 then (match get (String ((Ascii (true, true, false, false,
                               false, false, true, false)), (String ((Ascii
                               (true, true, true, true, false, true, true,
                               false)), (String ((Ascii (true, true, false,
                               false, true, true, true, false)), (String
                               ((Ascii (true, false, true, false, false,
                               true, true, false)), (String ((Ascii (true,
                               true, false, false, true, false, true,
                               false)), (String ((Ascii (true, false, false,
                               true, false, true, true, false)), (String
                               ((Ascii (true, true, true, false, false, true,
                               true, false)), (String ((Ascii (false, true,
                               true, true, false, true, true, false)),
                               (String ((Ascii (true, false, false, false,
                               true, true, false, false)),
                               EmptyString))))))))))))))))))
                               coq_CoseSign1_from_value o_sign1 with
                       | Ok m ->
                         (match args with
                          | [] -> badcase
                          | pl :: l ->
                            (match l with
                             | [] -> badcase
                             | aad :: l0 ->
                               (match l0 with
                                | [] ->
                                  show_rec
                                    (coq_Sign1_verify_detached_signature m pl
                                      aad record2)
                                | _ :: _ -> badcase)))
                       | Err e ->
                         app
                           (s2b (String ((Ascii (false, true, true, true,
                             false, true, true, false)), (String ((Ascii
                             (true, true, true, true, false, true, true,
                             false)), (String ((Ascii (true, false, true,
                             true, false, true, true, false)), (String
                             ((Ascii (true, true, false, false, true, true,
                             true, false)), (String ((Ascii (true, true,
                             true, false, false, true, true, false)), (String
                             ((Ascii (false, false, false, false, false,
                             true, false, false)), EmptyString)))))))))))))
                           (show_res (fun _ -> []) (Err e))
                       | Panic ->
                         app
                           (s2b (String ((Ascii (false, true, true, true,
                             false, true, true, false)), (String ((Ascii
                             (true, true, true, true, false, true, true,
                             false)), (String ((Ascii (true, false, true,
                             true, false, true, true, false)), (String
                             ((Ascii (true, true, false, false, true, true,
                             true, false)), (String ((Ascii (true, true,
                             true, false, false, true, true, false)), (String
                             ((Ascii (false, false, false, false, false,
                             true, false, false)), EmptyString)))))))))))))
                           (show_res (fun _ -> []) Panic)
                       | OutOfFuel ->
                         app
                           (s2b (String ((Ascii (false, true, true, true,
                             false, true, true, false)), (String ((Ascii
                             (true, true, true, true, false, true, true,
                             false)), (String ((Ascii (true, false, true,
                             true, false, true, true, false)), (String
                             ((Ascii (true, true, false, false, true, true,
                             true, false)), (String ((Ascii (true, true,
                             true, false, false, true, true, false)), (String
                             ((Ascii (false, false, false, false, false,
                             true, false, false)), EmptyString)))))))))))))
                           (show_res (fun _ -> []) OutOfFuel))
                 else if eqb fn (String ((Ascii (true, true, false, false,
                           true, true, true, false)), (String ((Ascii (true,
                           false, false, true, false, true, true, false)),
                           (String ((Ascii (true, true, true, false, false,
                           true, true, false)), (String ((Ascii (false, true,
                           true, true, false, true, true, false)), (String
                           ((Ascii (false, true, true, true, false, true,
                           false, false)), (String ((Ascii (false, false,
                           true, false, true, true, true, false)), (String
                           ((Ascii (false, true, false, false, false, true,
                           true, false)), (String ((Ascii (true, true, false,
                           false, true, true, true, false)), (String ((Ascii
                           (true, true, true, true, true, false, true,
                           false)), (String ((Ascii (false, false, true,
                           false, false, true, true, false)), (String ((Ascii
                           (true, false, false, false, false, true, true,
                           false)), (String ((Ascii (false, false, true,
                           false, true, true, true, false)), (String ((Ascii
                           (true, false, false, false, false, true, true,
                           false)), EmptyString))))))))))))))))))))))))))
                      then (match get (String ((Ascii (true, true, false,
                                    false, false, false, true, false)),
                                    (String ((Ascii (true, true, true, true,
                                    false, true, true, false)), (String
                                    ((Ascii (true, true, false, false, true,
                                    true, true, false)), (String ((Ascii
                                    (true, false, true, false, false, true,
                                    true, false)), (String ((Ascii (true,
                                    true, false, false, true, false, true,
                                    false)), (String ((Ascii (true, false,
                                    false, true, false, true, true, false)),
                                    (String ((Ascii (true, true, true, false,
                                    false, true, true, false)), (String
                                    ((Ascii (false, true, true, true, false,
                                    true, true, false)),
                                    EmptyString))))))))))))))))
                                    coq_CoseSign_from_value o_sign with
                            | Ok m ->
                              (match args with
                               | [] -> badcase
                               | aad :: l ->
                                 (match l with
                                  | [] -> badcase
                                  | w :: l0 ->
                                    (match l0 with
                                     | [] ->
                                       show_res show_hex
                                         (bind
                                           (nth_res m.sn_sigs (nat_of_arg w))
                                           (fun sg ->
                                           coq_Sign_tbs_data m aad sg))
                                     | _ :: _ -> badcase)))
                            | Err e ->
                              app
                                (s2b (String ((Ascii (false, true, true,
                                  true, false, true, true, false)), (String
                                  ((Ascii (true, true, true, true, false,
                                  true, true, false)), (String ((Ascii (true,
                                  false, true, true, false, true, true,
                                  false)), (String ((Ascii (true, true,
                                  false, false, true, true, true, false)),
                                  (String ((Ascii (true, true, true, false,
                                  false, true, true, false)), (String ((Ascii
                                  (false, false, false, false, false, true,
                                  false, false)), EmptyString)))))))))))))
                                (show_res (fun _ -> []) (Err e))
                            | Panic ->
                              app
                                (s2b (String ((Ascii (false, true, true,
                                  true, false, true, true, false)), (String
                                  ((Ascii (true, true, true, true, false,
                                  true, true, false)), (String ((Ascii (true,
                                  false, true, true, false, true, true,
                                  false)), (String ((Ascii (true, true,
                                  false, false, true, true, true, false)),
                                  (String ((Ascii (true, true, true, false,
                                  false, true, true, false)), (String ((Ascii
                                  (false, false, false, false, false, true,
                                  false, false)), EmptyString)))))))))))))
                                (show_res (fun _ -> []) Panic)
                            | OutOfFuel ->
                              app
                                (s2b (String ((Ascii (false, true, true,
                                  true, false, true, true, false)), (String
                                  ((Ascii (true, true, true, true, false,
                                  true, true, false)), (String ((Ascii (true,
                                  false, true, true, false, true, true,
                                  false)), (String ((Ascii (true, true,
                                  false, false, true, true, true, false)),
                                  (String ((Ascii (true, true, true, false,
                                  false, true, true, false)), (String ((Ascii
                                  (false, false, false, false, false, true,
                                  false, false)), EmptyString)))))))))))))
                                (show_res (fun _ -> []) OutOfFuel))
                      else if eqb fn (String ((Ascii (true, true, false,
                                false, true, true, true, false)), (String
                                ((Ascii (true, false, false, true, false,
                                true, true, false)), (String ((Ascii (true,
                                true, true, false, false, true, true,
                                false)), (String ((Ascii (false, true, true,
                                true, false, true, true, false)), (String
                                ((Ascii (false, true, true, true, false,
                                true, false, false)), (String ((Ascii (false,
                                false, true, false, true, true, true,
                                false)), (String ((Ascii (false, true, false,
                                false, false, true, true, false)), (String
                                ((Ascii (true, true, false, false, true,
                                true, true, false)), (String ((Ascii (true,
                                true, true, true, true, false, true, false)),
                                (String ((Ascii (false, false, true, false,
                                false, true, true, false)), (String ((Ascii
                                (true, false, true, false, false, true, true,
                                false)), (String ((Ascii (false, false, true,
                                false, true, true, true, false)), (String
                                ((Ascii (true, false, false, false, false,
                                true, true, false)), (String ((Ascii (true,
                                true, false, false, false, true, true,
                                false)), (String ((Ascii (false, false,
                                false, true, false, true, true, false)),
                                (String ((Ascii (true, false, true, false,
                                false, true, true, false)), (String ((Ascii
                                (false, false, true, false, false, true,
                                true, false)), (String ((Ascii (true, true,
                                true, true, true, false, true, false)),
                                (String ((Ascii (false, false, true, false,
                                false, true, true, false)), (String ((Ascii
                                (true, false, false, false, false, true,
                                true, false)), (String ((Ascii (false, false,
                                true, false, true, true, true, false)),
                                (String ((Ascii (true, false, false, false,
                                false, true, true, false)),
                                EmptyString))))))))))))))))))))))))))))))))))))))))))))
                           then (match get (String ((Ascii (true, true,
                                         false, false, false, false, true,
                                         false)), (String ((Ascii (true,
                                         true, true, true, false, true, true,
                                         false)), (String ((Ascii (true,
                                         true, false, false, true, true,
                                         true, false)), (String ((Ascii
                                         (true, false, true, false, false,
                                         true, true, false)), (String ((Ascii
                                         (true, true, false, false, true,
                                         false, true, false)), (String
                                         ((Ascii (true, false, false, true,
                                         false, true, true, false)), (String
                                         ((Ascii (true, true, true, false,
                                         false, true, true, false)), (String
                                         ((Ascii (false, true, true, true,
                                         false, true, true, false)),
                                         EmptyString))))))))))))))))
                                         coq_CoseSign_from_value o_sign with
                                 | Ok m ->
                                   (match args with
                                    | [] -> badcase
                                    | pl :: l ->
                                      (match l with
                                       | [] -> badcase
                                       | aad :: l0 ->
                                         (match l0 with
                                          | [] -> badcase
                                          | w :: l1 ->
                                            (match l1 with
                                             | [] ->
                                               show_res show_hex
                                                 (bind
                                                   (nth_res m.sn_sigs
                                                     (nat_of_arg w))
                                                   (fun sg ->
                                                   coq_Sign_tbs_detached_data
                                                     m pl aad sg))
                                             | _ :: _ -> badcase))))
                                 | Err e ->
                                   app
                                     (s2b (String ((Ascii (false, true, true,
                                       true, false, true, true, false)),
                                       (String ((Ascii (true, true, true,
                                       true, false, true, true, false)),
                                       (String ((Ascii (true, false, true,
                                       true, false, true, true, false)),
                                       (String ((Ascii (true, true, false,
                                       false, true, true, true, false)),
                                       (String ((Ascii (true, true, true,
                                       false, false, true, true, false)),
                                       (String ((Ascii (false, false, false,
                                       false, false, true, false, false)),
                                       EmptyString)))))))))))))
                                     (show_res (fun _ -> []) (Err e))
                                 | Panic ->
                                   app
                                     (s2b (String ((Ascii (false, true, true,
                                       true, false, true, true, false)),
                                       (String ((Ascii (true, true, true,
                                       true, false, true, true, false)),
                                       (String ((Ascii (true, false, true,
                                       true, false, true, true, false)),
                                       (String ((Ascii (true, true, false,
                                       false, true, true, true, false)),
                                       (String ((Ascii (true, true, true,
                                       false, false, true, true, false)),
                                       (String ((Ascii (false, false, false,
                                       false, false, true, false, false)),
                                       EmptyString)))))))))))))
                                     (show_res (fun _ -> []) Panic)
                                 | OutOfFuel ->
                                   app
                                     (s2b (String ((Ascii (false, true, true,
                                       true, false, true, true, false)),
                                       (String ((Ascii (true, true, true,
                                       true, false, true, true, false)),
                                       (String ((Ascii (true, false, true,
                                       true, false, true, true, false)),
                                       (String ((Ascii (true, true, false,
                                       false, true, true, true, false)),
                                       (String ((Ascii (true, true, true,
                                       false, false, true, true, false)),
                                       (String ((Ascii (false, false, false,
                                       false, false, true, false, false)),
                                       EmptyString)))))))))))))
                                     (show_res (fun _ -> []) OutOfFuel))
                           else if eqb fn (String ((Ascii (true, true, false,
                                     false, true, true, true, false)),
                                     (String ((Ascii (true, false, false,
                                     true, false, true, true, false)),
                                     (String ((Ascii (true, true, true,
                                     false, false, true, true, false)),
                                     (String ((Ascii (false, true, true,
                                     true, false, true, true, false)),
                                     (String ((Ascii (false, true, true,
                                     true, false, true, false, false)),
                                     (String ((Ascii (false, true, true,
                                     false, true, true, true, false)),
                                     (String ((Ascii (true, false, true,
                                     false, false, true, true, false)),
                                     (String ((Ascii (false, true, false,
                                     false, true, true, true, false)),
                                     (String ((Ascii (true, false, false,
                                     true, false, true, true, false)),
                                     (String ((Ascii (false, true, true,
                                     false, false, true, true, false)),
                                     (String ((Ascii (true, false, false,
                                     true, true, true, true, false)), (String
                                     ((Ascii (true, true, true, true, true,
                                     false, true, false)), (String ((Ascii
                                     (true, true, false, false, true, true,
                                     true, false)), (String ((Ascii (true,
                                     false, false, true, false, true, true,
                                     false)), (String ((Ascii (true, true,
                                     true, false, false, true, true, false)),
                                     (String ((Ascii (false, true, true,
                                     true, false, true, true, false)),
                                     (String ((Ascii (true, false, false,
                                     false, false, true, true, false)),
                                     (String ((Ascii (false, false, true,
                                     false, true, true, true, false)),
                                     (String ((Ascii (true, false, true,
                                     false, true, true, true, false)),
                                     (String ((Ascii (false, true, false,
                                     false, true, true, true, false)),
                                     (String ((Ascii (true, false, true,
                                     false, false, true, true, false)),
                                     EmptyString))))))))))))))))))))))))))))))))))))))))))
                                then (match get (String ((Ascii (true, true,
                                              false, false, false, false,
                                              true, false)), (String ((Ascii
                                              (true, true, true, true, false,
                                              true, true, false)), (String
                                              ((Ascii (true, true, false,
                                              false, true, true, true,
                                              false)), (String ((Ascii (true,
                                              false, true, false, false,
                                              true, true, false)), (String
                                              ((Ascii (true, true, false,
                                              false, true, false, true,
                                              false)), (String ((Ascii (true,
                                              false, false, true, false,
                                              true, true, false)), (String
                                              ((Ascii (true, true, true,
                                              false, false, true, true,
                                              false)), (String ((Ascii
                                              (false, true, true, true,
                                              false, true, true, false)),
                                              EmptyString))))))))))))))))
                                              coq_CoseSign_from_value o_sign with
                                      | Ok m ->
                                        (match args with
                                         | [] -> badcase
                                         | w :: l ->
                                           (match l with
                                            | [] -> badcase
                                            | aad :: l0 ->
                                              (match l0 with
                                               | [] ->
                                                 show_rec
                                                   (coq_Sign_verify_signature
                                                     m (nat_of_arg w) aad
                                                     record2)
                                               | _ :: _ -> badcase)))
                                      | Err e ->
                                        app
                                          (s2b (String ((Ascii (false, true,
                                            true, true, false, true, true,
                                            false)), (String ((Ascii (true,
                                            true, true, true, false, true,
                                            true, false)), (String ((Ascii
                                            (true, false, true, true, false,
                                            true, true, false)), (String
                                            ((Ascii (true, true, false,
                                            false, true, true, true, false)),
                                            (String ((Ascii (true, true,
                                            true, false, false, true, true,
                                            false)), (String ((Ascii (false,
                                            false, false, false, false, true,
                                            false, false)),
                                            EmptyString)))))))))))))
                                          (show_res (fun _ -> []) (Err e))
                                      | Panic ->
                                        app
                                          (s2b (String ((Ascii (false, true,
                                            true, true, false, true, true,
                                            false)), (String ((Ascii (true,
                                            true, true, true, false, true,
                                            true, false)), (String ((Ascii
                                            (true, false, true, true, false,
                                            true, true, false)), (String
                                            ((Ascii (true, true, false,
                                            false, true, true, true, false)),
                                            (String ((Ascii (true, true,
                                            true, false, false, true, true,
                                            false)), (String ((Ascii (false,
                                            false, false, false, false, true,
                                            false, false)),
                                            EmptyString)))))))))))))
                                          (show_res (fun _ -> []) Panic)
                                      | OutOfFuel ->
                                        app
                                          (s2b (String ((Ascii (false, true,
                                            true, true, false, true, true,
                                            false)), (String ((Ascii (true,
                                            true, true, true, false, true,
                                            true, false)), (String ((Ascii
                                            (true, false, true, true, false,
                                            true, true, false)), (String
                                            ((Ascii (true, true, false,
                                            false, true, true, true, false)),
                                            (String ((Ascii (true, true,
                                            true, false, false, true, true,
                                            false)), (String ((Ascii (false,
                                            false, false, false, false, true,
                                            false, false)),
                                            EmptyString)))))))))))))
                                          (show_res (fun _ -> []) OutOfFuel))
                                else if eqb fn (String ((Ascii (true, true,
                                          false, false, true, true, true,
                                          false)), (String ((Ascii (true,
                                          false, false, true, false, true,
                                          true, false)), (String ((Ascii
                                          (true, true, true, false, false,
                                          true, true, false)), (String
                                          ((Ascii (false, true, true, true,
                                          false, true, true, false)), (String
                                          ((Ascii (false, true, true, true,
                                          false, true, false, false)),
                                          (String ((Ascii (false, true, true,
                                          false, true, true, true, false)),
                                          (String ((Ascii (true, false, true,
                                          false, false, true, true, false)),
                                          (String ((Ascii (false, true,
                                          false, false, true, true, true,
                                          false)), (String ((Ascii (true,
                                          false, false, true, false, true,
                                          true, false)), (String ((Ascii
                                          (false, true, true, false, false,
                                          true, true, false)), (String
                                          ((Ascii (true, false, false, true,
                                          true, true, true, false)), (String
                                          ((Ascii (true, true, true, true,
                                          true, false, true, false)), (String
                                          ((Ascii (false, false, true, false,
                                          false, true, true, false)), (String
                                          ((Ascii (true, false, true, false,
                                          false, true, true, false)), (String
                                          ((Ascii (false, false, true, false,
                                          true, true, true, false)), (String
                                          ((Ascii (true, false, false, false,
                                          false, true, true, false)), (String
                                          ((Ascii (true, true, false, false,
                                          false, true, true, false)), (String
                                          ((Ascii (false, false, false, true,
                                          false, true, true, false)), (String
                                          ((Ascii (true, false, true, false,
                                          false, true, true, false)), (String
                                          ((Ascii (false, false, true, false,
                                          false, true, true, false)), (String
                                          ((Ascii (true, true, true, true,
                                          true, false, true, false)), (String
                                          ((Ascii (true, true, false, false,
                                          true, true, true, false)), (String
                                          ((Ascii (true, false, false, true,
                                          false, true, true, false)), (String
                                          ((Ascii (true, true, true, false,
                                          false, true, true, false)), (String
                                          ((Ascii (false, true, true, true,
                                          false, true, true, false)), (String
                                          ((Ascii (true, false, false, false,
                                          false, true, true, false)), (String
                                          ((Ascii (false, false, true, false,
                                          true, true, true, false)), (String
                                          ((Ascii (true, false, true, false,
                                          true, true, true, false)), (String
                                          ((Ascii (false, true, false, false,
                                          true, true, true, false)), (String
                                          ((Ascii (true, false, true, false,
                                          false, true, true, false)),
                                          EmptyString))))))))))))))))))))))))))))))))))))))))))))))))))))))))))))
                                     then (match get (String ((Ascii (true,
                                                   true, false, false, false,
                                                   false, true, false)),
                                                   (String ((Ascii (true,
                                                   true, true, true, false,
                                                   true, true, false)),
                                                   (String ((Ascii (true,
                                                   true, false, false, true,
                                                   true, true, false)),
                                                   (String ((Ascii (true,
                                                   false, true, false, false,
                                                   true, true, false)),
                                                   (String ((Ascii (true,
                                                   true, false, false, true,
                                                   false, true, false)),
                                                   (String ((Ascii (true,
                                                   false, false, true, false,
                                                   true, true, false)),
                                                   (String ((Ascii (true,
                                                   true, true, false, false,
                                                   true, true, false)),
                                                   (String ((Ascii (false,
                                                   true, true, true, false,
                                                   true, true, false)),
                                                   EmptyString))))))))))))))))
                                                   coq_CoseSign_from_value
                                                   o_sign with
                                           | Ok m ->
                                             (match args with
                                              | [] -> badcase
                                              | w :: l ->
                                                (match l with
                                                 | [] -> badcase
                                                 | pl :: l0 ->
                                                   (match l0 with
                                                    | [] -> badcase
                                                    | aad :: l1 ->
                                                      (match l1 with
                                                       | [] ->
                                                         show_rec
                                                           (coq_Sign_verify_detached_signature
                                                             m (nat_of_arg w)
                                                             pl aad record2)
                                                       | _ :: _ -> badcase))))
                                           | Err e ->
                                             app
                                               (s2b (String ((Ascii (false,
                                                 true, true, true, false,
                                                 true, true, false)), (String
                                                 ((Ascii (true, true, true,
                                                 true, false, true, true,
                                                 false)), (String ((Ascii
                                                 (true, false, true, true,
                                                 false, true, true, false)),
                                                 (String ((Ascii (true, true,
                                                 false, false, true, true,
                                                 true, false)), (String
                                                 ((Ascii (true, true, true,
                                                 false, false, true, true,
                                                 false)), (String ((Ascii
                                                 (false, false, false, false,
                                                 false, true, false, false)),
                                                 EmptyString)))))))))))))
                                               (show_res (fun _ -> []) (Err
                                                 e))
                                           | Panic ->
                                             app
                                               (s2b (String ((Ascii (false,
                                                 true, true, true, false,
                                                 true, true, false)), (String
                                                 ((Ascii (true, true, true,
                                                 true, false, true, true,
                                                 false)), (String ((Ascii
                                                 (true, false, true, true,
                                                 false, true, true, false)),
                                                 (String ((Ascii (true, true,
                                                 false, false, true, true,
                                                 true, false)), (String
                                                 ((Ascii (true, true, true,
                                                 false, false, true, true,
                                                 false)), (String ((Ascii
                                                 (false, false, false, false,
                                                 false, true, false, false)),
                                                 EmptyString)))))))))))))
                                               (show_res (fun _ -> []) Panic)
                                           | OutOfFuel ->
                                             app
                                               (s2b (String ((Ascii (false,
                                                 true, true, true, false,
                                                 true, true, false)), (String
                                                 ((Ascii (true, true, true,
                                                 true, false, true, true,
                                                 false)), (String ((Ascii
                                                 (true, false, true, true,
                                                 false, true, true, false)),
                                                 (String ((Ascii (true, true,
                                                 false, false, true, true,
                                                 true, false)), (String
                                                 ((Ascii (true, true, true,
                                                 false, false, true, true,
                                                 false)), (String ((Ascii
                                                 (false, false, false, false,
                                                 false, true, false, false)),
                                                 EmptyString)))))))))))))
                                               (show_res (fun _ -> [])
                                                 OutOfFuel))
                                     else if eqb fn (String ((Ascii (true,
                                               false, true, true, false,
                                               true, true, false)), (String
                                               ((Ascii (true, false, false,
                                               false, false, true, true,
                                               false)), (String ((Ascii
                                               (true, true, false, false,
                                               false, true, true, false)),
                                               (String ((Ascii (false, true,
                                               true, true, false, true,
                                               false, false)), (String
                                               ((Ascii (false, true, true,
                                               false, true, true, true,
                                               false)), (String ((Ascii
                                               (true, false, true, false,
                                               false, true, true, false)),
                                               (String ((Ascii (false, true,
                                               false, false, true, true,
                                               true, false)), (String ((Ascii
                                               (true, false, false, true,
                                               false, true, true, false)),
                                               (String ((Ascii (false, true,
                                               true, false, false, true,
                                               true, false)), (String ((Ascii
                                               (true, false, false, true,
                                               true, true, true, false)),
                                               (String ((Ascii (true, true,
                                               true, true, true, false, true,
                                               false)), (String ((Ascii
                                               (false, false, true, false,
                                               true, true, true, false)),
                                               (String ((Ascii (true, false,
                                               false, false, false, true,
                                               true, false)), (String ((Ascii
                                               (true, true, true, false,
                                               false, true, true, false)),
                                               EmptyString))))))))))))))))))))))))))))
                                          then (match get (String ((Ascii
                                                        (true, true, false,
                                                        false, false, false,
                                                        true, false)),
                                                        (String ((Ascii
                                                        (true, true, true,
                                                        true, false, true,
                                                        true, false)),
                                                        (String ((Ascii
                                                        (true, true, false,
                                                        false, true, true,
                                                        true, false)),
                                                        (String ((Ascii
                                                        (true, false, true,
                                                        false, false, true,
                                                        true, false)),
                                                        (String ((Ascii
                                                        (true, false, true,
                                                        true, false, false,
                                                        true, false)),
                                                        (String ((Ascii
                                                        (true, false, false,
                                                        false, false, true,
                                                        true, false)),
                                                        (String ((Ascii
                                                        (true, true, false,
                                                        false, false, true,
                                                        true, false)),
                                                        EmptyString))))))))))))))
                                                        coq_CoseMac_from_value
                                                        o_mac with
                                                | Ok m ->
                                                  (match args with
                                                   | [] -> badcase
                                                   | aad :: l ->
                                                     (match l with
                                                      | [] ->
                                                        show_rec
                                                          (coq_Mac_verify_tag
                                                            m aad record2)
                                                      | _ :: _ -> badcase))
                                                | Err e ->
                                                  app
                                                    (s2b (String ((Ascii
                                                      (false, true, true,
                                                      true, false, true,
                                                      true, false)), (String
                                                      ((Ascii (true, true,
                                                      true, true, false,
                                                      true, true, false)),
                                                      (String ((Ascii (true,
                                                      false, true, true,
                                                      false, true, true,
                                                      false)), (String
                                                      ((Ascii (true, true,
                                                      false, false, true,
                                                      true, true, false)),
                                                      (String ((Ascii (true,
                                                      true, true, false,
                                                      false, true, true,
                                                      false)), (String
                                                      ((Ascii (false, false,
                                                      false, false, false,
                                                      true, false, false)),
                                                      EmptyString)))))))))))))
                                                    (show_res (fun _ -> [])
                                                      (Err e))
                                                | Panic ->
                                                  app
                                                    (s2b (String ((Ascii
                                                      (false, true, true,
                                                      true, false, true,
                                                      true, false)), (String
                                                      ((Ascii (true, true,
                                                      true, true, false,
                                                      true, true, false)),
                                                      (String ((Ascii (true,
                                                      false, true, true,
                                                      false, true, true,
                                                      false)), (String
                                                      ((Ascii (true, true,
                                                      false, false, true,
                                                      true, true, false)),
                                                      (String ((Ascii (true,
                                                      true, true, false,
                                                      false, true, true,
                                                      false)), (String
                                                      ((Ascii (false, false,
                                                      false, false, false,
                                                      true, false, false)),
                                                      EmptyString)))))))))))))
                                                    (show_res (fun _ -> [])
                                                      Panic)
                                                | OutOfFuel ->
                                                  app
                                                    (s2b (String ((Ascii
                                                      (false, true, true,
                                                      true, false, true,
                                                      true, false)), (String
                                                      ((Ascii (true, true,
                                                      true, true, false,
                                                      true, true, false)),
                                                      (String ((Ascii (true,
                                                      false, true, true,
                                                      false, true, true,
                                                      false)), (String
                                                      ((Ascii (true, true,
                                                      false, false, true,
                                                      true, true, false)),
                                                      (String ((Ascii (true,
                                                      true, true, false,
                                                      false, true, true,
                                                      false)), (String
                                                      ((Ascii (false, false,
                                                      false, false, false,
                                                      true, false, false)),
                                                      EmptyString)))))))))))))
                                                    (show_res (fun _ -> [])
                                                      OutOfFuel))
                                          else if eqb fn (String ((Ascii
                                                    (true, false, true, true,
                                                    false, true, true,
                                                    false)), (String ((Ascii
                                                    (true, false, false,
                                                    false, false, true, true,
                                                    false)), (String ((Ascii
                                                    (true, true, false,
                                                    false, false, true, true,
                                                    false)), (String ((Ascii
                                                    (false, false, false,
                                                    false, true, true, false,
                                                    false)), (String ((Ascii
                                                    (false, true, true, true,
                                                    false, true, false,
                                                    false)), (String ((Ascii
                                                    (false, true, true,
                                                    false, true, true, true,
                                                    false)), (String ((Ascii
                                                    (true, false, true,
                                                    false, false, true, true,
                                                    false)), (String ((Ascii
                                                    (false, true, false,
                                                    false, true, true, true,
                                                    false)), (String ((Ascii
                                                    (true, false, false,
                                                    true, false, true, true,
                                                    false)), (String ((Ascii
                                                    (false, true, true,
                                                    false, false, true, true,
                                                    false)), (String ((Ascii
                                                    (true, false, false,
                                                    true, true, true, true,
                                                    false)), (String ((Ascii
                                                    (true, true, true, true,
                                                    true, false, true,
                                                    false)), (String ((Ascii
                                                    (false, false, true,
                                                    false, true, true, true,
                                                    false)), (String ((Ascii
                                                    (true, false, false,
                                                    false, false, true, true,
                                                    false)), (String ((Ascii
                                                    (true, true, true, false,
                                                    false, true, true,
                                                    false)),
                                                    EmptyString))))))))))))))))))))))))))))))
                                               then (match get (String
                                                             ((Ascii (true,
                                                             true, false,
                                                             false, false,
                                                             false, true,
                                                             false)), (String
                                                             ((Ascii (true,
                                                             true, true,
                                                             true, false,
                                                             true, true,
                                                             false)), (String
                                                             ((Ascii (true,
                                                             true, false,
                                                             false, true,
                                                             true, true,
                                                             false)), (String
                                                             ((Ascii (true,
                                                             false, true,
                                                             false, false,
                                                             true, true,
                                                             false)), (String
                                                             ((Ascii (true,
                                                             false, true,
                                                             true, false,
                                                             false, true,
                                                             false)), (String
                                                             ((Ascii (true,
                                                             false, false,
                                                             false, false,
                                                             true, true,
                                                             false)), (String
                                                             ((Ascii (true,
                                                             true, false,
                                                             false, false,
                                                             true, true,
                                                             false)), (String
                                                             ((Ascii (false,
                                                             false, false,
                                                             false, true,
                                                             true, false,
                                                             false)),
                                                             EmptyString))))))))))))))))
                                                             coq_CoseMac0_from_value
                                                             o_mac0 with
                                                     | Ok m ->
                                                       (match args with
                                                        | [] -> badcase
                                                        | aad :: l ->
                                                          (match l with
                                                           | [] ->
                                                             show_rec
                                                               (coq_Mac0_verify_tag
                                                                 m aad
                                                                 record2)
                                                           | _ :: _ -> badcase))
                                                     | Err e ->
                                                       app
                                                         (s2b (String ((Ascii
                                                           (false, true,
                                                           true, true, false,
                                                           true, true,
                                                           false)), (String
                                                           ((Ascii (true,
                                                           true, true, true,
                                                           false, true, true,
                                                           false)), (String
                                                           ((Ascii (true,
                                                           false, true, true,
                                                           false, true, true,
                                                           false)), (String
                                                           ((Ascii (true,
                                                           true, false,
                                                           false, true, true,
                                                           true, false)),
                                                           (String ((Ascii
                                                           (true, true, true,
                                                           false, false,
                                                           true, true,
                                                           false)), (String
                                                           ((Ascii (false,
                                                           false, false,
                                                           false, false,
                                                           true, false,
                                                           false)),
                                                           EmptyString)))))))))))))
                                                         (show_res (fun _ ->
                                                           []) (Err e))
                                                     | Panic ->
                                                       app
                                                         (s2b (String ((Ascii
                                                           (false, true,
                                                           true, true, false,
                                                           true, true,
                                                           false)), (String
                                                           ((Ascii (true,
                                                           true, true, true,
                                                           false, true, true,
                                                           false)), (String
                                                           ((Ascii (true,
                                                           false, true, true,
                                                           false, true, true,
                                                           false)), (String
                                                           ((Ascii (true,
                                                           true, false,
                                                           false, true, true,
                                                           true, false)),
                                                           (String ((Ascii
                                                           (true, true, true,
                                                           false, false,
                                                           true, true,
                                                           false)), (String
                                                           ((Ascii (false,
                                                           false, false,
                                                           false, false,
                                                           true, false,
                                                           false)),
                                                           EmptyString)))))))))))))
                                                         (show_res (fun _ ->
                                                           []) Panic)
                                                     | OutOfFuel ->
                                                       app
                                                         (s2b (String ((Ascii
                                                           (false, true,
                                                           true, true, false,
                                                           true, true,
                                                           false)), (String
                                                           ((Ascii (true,
                                                           true, true, true,
                                                           false, true, true,
                                                           false)), (String
                                                           ((Ascii (true,
                                                           false, true, true,
                                                           false, true, true,
                                                           false)), (String
                                                           ((Ascii (true,
                                                           true, false,
                                                           false, true, true,
                                                           true, false)),
                                                           (String ((Ascii
                                                           (true, true, true,
                                                           false, false,
                                                           true, true,
                                                           false)), (String
                                                           ((Ascii (false,
                                                           false, false,
                                                           false, false,
                                                           true, false,
                                                           false)),
                                                           EmptyString)))))))))))))
                                                         (show_res (fun _ ->
                                                           []) OutOfFuel))
                                               else if eqb fn (String ((Ascii
                                                         (true, false, true,
                                                         false, false, true,
                                                         true, false)),
                                                         (String ((Ascii
                                                         (false, true, true,
                                                         true, false, true,
                                                         true, false)),
                                                         (String ((Ascii
                                                         (true, true, false,
                                                         false, false, true,
                                                         true, false)),
                                                         (String ((Ascii
                                                         (false, true, false,
                                                         false, true, true,
                                                         true, false)),
                                                         (String ((Ascii
                                                         (true, false, false,
                                                         true, true, true,
                                                         true, false)),
                                                         (String ((Ascii
                                                         (false, false,
                                                         false, false, true,
                                                         true, true, false)),
                                                         (String ((Ascii
                                                         (false, false, true,
                                                         false, true, true,
                                                         true, false)),
                                                         (String ((Ascii
                                                         (false, true, true,
                                                         true, false, true,
                                                         false, false)),
                                                         (String ((Ascii
                                                         (false, false, true,
                                                         false, false, true,
                                                         true, false)),
                                                         (String ((Ascii
                                                         (true, false, true,
                                                         false, false, true,
                                                         true, false)),
                                                         (String ((Ascii
                                                         (true, true, false,
                                                         false, false, true,
                                                         true, false)),
                                                         (String ((Ascii
                                                         (false, true, false,
                                                         false, true, true,
                                                         true, false)),
                                                         (String ((Ascii
                                                         (true, false, false,
                                                         true, true, true,
                                                         true, false)),
                                                         (String ((Ascii
                                                         (false, false,
                                                         false, false, true,
                                                         true, true, false)),
                                                         (String ((Ascii
                                                         (false, false, true,
                                                         false, true, true,
                                                         true, false)),
                                                         EmptyString))))))))))))))))))))))))))))))
                                                    then (match get (String
                                                                  ((Ascii
                                                                  (true,
                                                                  true,
                                                                  false,
                                                                  false,
                                                                  false,
                                                                  false,
                                                                  true,
                                                                  false)),
                                                                  (String
                                                                  ((Ascii
                                                                  (true,
                                                                  true, true,
                                                                  true,
                                                                  false,
                                                                  true, true,
                                                                  false)),
                                                                  (String
                                                                  ((Ascii
                                                                  (true,
                                                                  true,
                                                                  false,
                                                                  false,
                                                                  true, true,
                                                                  true,
                                                                  false)),
                                                                  (String
                                                                  ((Ascii
                                                                  (true,
                                                                  false,
                                                                  true,
                                                                  false,
                                                                  false,
                                                                  true, true,
                                                                  false)),
                                                                  (String
                                                                  ((Ascii
                                                                  (true,
                                                                  false,
                                                                  true,
                                                                  false,
                                                                  false,
                                                                  false,
                                                                  true,
                                                                  false)),
                                                                  (String
                                                                  ((Ascii
                                                                  (false,
                                                                  true, true,
                                                                  true,
                                                                  false,
                                                                  true, true,
                                                                  false)),
                                                                  (String
                                                                  ((Ascii
                                                                  (true,
                                                                  true,
                                                                  false,
                                                                  false,
                                                                  false,
                                                                  true, true,
                                                                  false)),
                                                                  (String
                                                                  ((Ascii
                                                                  (false,
                                                                  true,
                                                                  false,
                                                                  false,
                                                                  true, true,
                                                                  true,
                                                                  false)),
                                                                  (String
                                                                  ((Ascii
                                                                  (true,
                                                                  false,
                                                                  false,
                                                                  true, true,
                                                                  true, true,
                                                                  false)),
                                                                  (String
                                                                  ((Ascii
                                                                  (false,
                                                                  false,
                                                                  false,
                                                                  false,
                                                                  true, true,
                                                                  true,
                                                                  false)),
                                                                  (String
                                                                  ((Ascii
                                                                  (false,
                                                                  false,
                                                                  true,
                                                                  false,
                                                                  true, true,
                                                                  true,
                                                                  false)),
                                                                  EmptyString))))))))))))))))))))))
                                                                  coq_CoseEncrypt_from_value
                                                                  o_encrypt with
                                                          | Ok m ->
                                                            (match args with
                                                             | [] -> badcase
                                                             | aad :: l ->
                                                               (match l with
                                                                | [] ->
                                                                  show_rec
                                                                    (coq_Encrypt_decrypt
                                                                    m aad
                                                                    record2)
                                                                | _ :: _ ->
                                                                  badcase))
                                                          | Err e ->
                                                            app
                                                              (s2b (String
                                                                ((Ascii
                                                                (false, true,
                                                                true, true,
                                                                false, true,
                                                                true,
                                                                false)),
                                                                (String
                                                                ((Ascii
                                                                (true, true,
                                                                true, true,
                                                                false, true,
                                                                true,
                                                                false)),
                                                                (String
                                                                ((Ascii
                                                                (true, false,
                                                                true, true,
                                                                false, true,
                                                                true,
                                                                false)),
                                                                (String
                                                                ((Ascii
                                                                (true, true,
                                                                false, false,
                                                                true, true,
                                                                true,
                                                                false)),
                                                                (String
                                                                ((Ascii
                                                                (true, true,
                                                                true, false,
                                                                false, true,
                                                                true,
                                                                false)),
                                                                (String
                                                                ((Ascii
                                                                (false,
                                                                false, false,
                                                                false, false,
                                                                true, false,
                                                                false)),
                                                                EmptyString)))))))))))))
                                                              (show_res
                                                                (fun _ -> [])
                                                                (Err e))
                                                          | Panic ->
                                                            app
                                                              (s2b (String
                                                                ((Ascii
                                                                (false, true,
                                                                true, true,
                                                                false, true,
                                                                true,
                                                                false)),
                                                                (String
                                                                ((Ascii
                                                                (true, true,
                                                                true, true,
                                                                false, true,
                                                                true,
                                                                false)),
                                                                (String
                                                                ((Ascii
                                                                (true, false,
                                                                true, true,
                                                                false, true,
                                                                true,
                                                                false)),
                                                                (String
                                                                ((Ascii
                                                                (true, true,
                                                                false, false,
                                                                true, true,
                                                                true,
                                                                false)),
                                                                (String
                                                                ((Ascii
                                                                (true, true,
                                                                true, false,
                                                                false, true,
                                                                true,
                                                                false)),
                                                                (String
                                                                ((Ascii
                                                                (false,
                                                                false, false,
                                                                false, false,
                                                                true, false,
                                                                false)),
                                                                EmptyString)))))))))))))
                                                              (show_res
                                                                (fun _ -> [])
                                                                Panic)
                                                          | OutOfFuel ->
                                                            app
                                                              (s2b (String
                                                                ((Ascii
                                                                (false, true,
                                                                true, true,
                                                                false, true,
                                                                true,
                                                                false)),
                                                                (String
                                                                ((Ascii
                                                                (true, true,
                                                                true, true,
                                                                false, true,
                                                                true,
                                                                false)),
                                                                (String
                                                                ((Ascii
                                                                (true, false,
                                                                true, true,
                                                                false, true,
                                                                true,
                                                                false)),
                                                                (String
                                                                ((Ascii
                                                                (true, true,
                                                                false, false,
                                                                true, true,
                                                                true,
                                                                false)),
                                                                (String
                                                                ((Ascii
                                                                (true, true,
                                                                true, false,
                                                                false, true,
                                                                true,
                                                                false)),
                                                                (String
                                                                ((Ascii
                                                                (false,
                                                                false, false,
                                                                false, false,
                                                                true, false,
                                                                false)),
                                                                EmptyString)))))))))))))
                                                              (show_res
                                                                (fun _ -> [])
                                                                OutOfFuel))
                                                    else if eqb fn (String
                                                              ((Ascii (true,
                                                              false, true,
                                                              false, false,
                                                              true, true,
                                                              false)),
                                                              (String ((Ascii
                                                              (false, true,
                                                              true, true,
                                                              false, true,
                                                              true, false)),
                                                              (String ((Ascii
                                                              (true, true,
                                                              false, false,
                                                              false, true,
                                                              true, false)),
                                                              (String ((Ascii
                                                              (false, true,
                                                              false, false,
                                                              true, true,
                                                              true, false)),
                                                              (String ((Ascii
                                                              (true, false,
                                                              false, true,
                                                              true, true,
                                                              true, false)),
                                                              (String ((Ascii
                                                              (false, false,
                                                              false, false,
                                                              true, true,
                                                              true, false)),
                                                              (String ((Ascii
                                                              (false, false,
                                                              true, false,
                                                              true, true,
                                                              true, false)),
                                                              (String ((Ascii
                                                              (false, false,
                                                              false, false,
                                                              true, true,
                                                              false, false)),
                                                              (String ((Ascii
                                                              (false, true,
                                                              true, true,
                                                              false, true,
                                                              false, false)),
                                                              (String ((Ascii
                                                              (false, false,
                                                              true, false,
                                                              false, true,
                                                              true, false)),
                                                              (String ((Ascii
                                                              (true, false,
                                                              true, false,
                                                              false, true,
                                                              true, false)),
                                                              (String ((Ascii
                                                              (true, true,
                                                              false, false,
                                                              false, true,
                                                              true, false)),
                                                              (String ((Ascii
                                                              (false, true,
                                                              false, false,
                                                              true, true,
                                                              true, false)),
                                                              (String ((Ascii
                                                              (true, false,
                                                              false, true,
                                                              true, true,
                                                              true, false)),
                                                              (String ((Ascii
                                                              (false, false,
                                                              false, false,
                                                              true, true,
                                                              true, false)),
                                                              (String ((Ascii
                                                              (false, false,
                                                              true, false,
                                                              true, true,
                                                              true, false)),
                                                              EmptyString))))))))))))))))))))))))))))))))
                                                         then (match 
                                                               get (String
                                                                 ((Ascii
                                                                 (true, true,
                                                                 false,
                                                                 false,
                                                                 false,
                                                                 false, true,
                                                                 false)),
                                                                 (String
                                                                 ((Ascii
                                                                 (true, true,
                                                                 true, true,
                                                                 false, true,
                                                                 true,
                                                                 false)),
                                                                 (String
                                                                 ((Ascii
                                                                 (true, true,
                                                                 false,
                                                                 false, true,
                                                                 true, true,
                                                                 false)),
                                                                 (String
                                                                 ((Ascii
                                                                 (true,
                                                                 false, true,
                                                                 false,
                                                                 false, true,
                                                                 true,
                                                                 false)),
                                                                 (String
                                                                 ((Ascii
                                                                 (true,
                                                                 false, true,
                                                                 false,
                                                                 false,
                                                                 false, true,
                                                                 false)),
                                                                 (String
                                                                 ((Ascii
                                                                 (false,
                                                                 true, true,
                                                                 true, false,
                                                                 true, true,
                                                                 false)),
                                                                 (String
                                                                 ((Ascii
                                                                 (true, true,
                                                                 false,
                                                                 false,
                                                                 false, true,
                                                                 true,
                                                                 false)),
                                                                 (String
                                                                 ((Ascii
                                                                 (false,
                                                                 true, false,
                                                                 false, true,
                                                                 true, true,
                                                                 false)),
                                                                 (String
                                                                 ((Ascii
                                                                 (true,
                                                                 false,
                                                                 false, true,
                                                                 true, true,
                                                                 true,
                                                                 false)),
                                                                 (String
                                                                 ((Ascii
                                                                 (false,
                                                                 false,
                                                                 false,
                                                                 false, true,
                                                                 true, true,
                                                                 false)),
                                                                 (String
                                                                 ((Ascii
                                                                 (false,
                                                                 false, true,
                                                                 false, true,
                                                                 true, true,
                                                                 false)),
                                                                 (String
                                                                 ((Ascii
                                                                 (false,
                                                                 false,
                                                                 false,
                                                                 false, true,
                                                                 true, false,
                                                                 false)),
                                                                 EmptyString))))))))))))))))))))))))
                                                                 coq_CoseEncrypt0_from_value
                                                                 o_encrypt0 with
                                                               | Ok m ->
                                                                 (match args with
                                                                  | [] ->
                                                                    badcase
                                                                  | aad :: l ->
                                                                    (match l with
                                                                    | [] ->
                                                                    show_rec
                                                                    (coq_Encrypt0_decrypt
                                                                    m aad
                                                                    record2)
                                                                    | _ :: _ ->
                                                                    badcase))
                                                               | Err e ->
                                                                 app
                                                                   (s2b
                                                                    (String
                                                                    ((Ascii
                                                                    (false,
                                                                    true,
                                                                    true,
                                                                    true,
                                                                    false,
                                                                    true,
                                                                    true,
                                                                    false)),
                                                                    (String
                                                                    ((Ascii
                                                                    (true,
                                                                    true,
                                                                    true,
                                                                    true,
                                                                    false,
                                                                    true,
                                                                    true,
                                                                    false)),
                                                                    (String
                                                                    ((Ascii
                                                                    (true,
                                                                    false,
                                                                    true,
                                                                    true,
                                                                    false,
                                                                    true,
                                                                    true,
                                                                    false)),
                                                                    (String
                                                                    ((Ascii
                                                                    (true,
                                                                    true,
                                                                    false,
                                                                    false,
                                                                    true,
                                                                    true,
                                                                    true,
                                                                    false)),
                                                                    (String
                                                                    ((Ascii
                                                                    (true,
                                                                    true,
                                                                    true,
                                                                    false,
                                                                    false,
                                                                    true,
                                                                    true,
                                                                    false)),
                                                                    (String
                                                                    ((Ascii
                                                                    (false,
                                                                    false,
                                                                    false,
                                                                    false,
                                                                    false,
                                                                    true,
                                                                    false,
                                                                    false)),
                                                                    EmptyString)))))))))))))
                                                                   (show_res
                                                                    (fun _ ->
                                                                    []) (Err
                                                                    e))
                                                               | Panic ->
                                                                 app
                                                                   (s2b
                                                                    (String
                                                                    ((Ascii
                                                                    (false,
                                                                    true,
                                                                    true,
                                                                    true,
                                                                    false,
                                                                    true,
                                                                    true,
                                                                    false)),
                                                                    (String
                                                                    ((Ascii
                                                                    (true,
                                                                    true,
                                                                    true,
                                                                    true,
                                                                    false,
                                                                    true,
                                                                    true,
                                                                    false)),
                                                                    (String
                                                                    ((Ascii
                                                                    (true,
                                                                    false,
                                                                    true,
                                                                    true,
                                                                    false,
                                                                    true,
                                                                    true,
                                                                    false)),
                                                                    (String
                                                                    ((Ascii
                                                                    (true,
                                                                    true,
                                                                    false,
                                                                    false,
                                                                    true,
                                                                    true,
                                                                    true,
                                                                    false)),
                                                                    (String
                                                                    ((Ascii
                                                                    (true,
                                                                    true,
                                                                    true,
                                                                    false,
                                                                    false,
                                                                    true,
                                                                    true,
                                                                    false)),
                                                                    (String
                                                                    ((Ascii
                                                                    (false,
                                                                    false,
                                                                    false,
                                                                    false,
                                                                    false,
                                                                    true,
                                                                    false,
                                                                    false)),
                                                                    EmptyString)))))))))))))
                                                                   (show_res
                                                                    (fun _ ->
                                                                    []) Panic)
                                                               | OutOfFuel ->
                                                                 app
                                                                   (s2b
                                                                    (String
                                                                    ((Ascii
                                                                    (false,
                                                                    true,
                                                                    true,
                                                                    true,
                                                                    false,
                                                                    true,
                                                                    true,
                                                                    false)),
                                                                    (String
                                                                    ((Ascii
                                                                    (true,
                                                                    true,
                                                                    true,
                                                                    true,
                                                                    false,
                                                                    true,
                                                                    true,
                                                                    false)),
                                                                    (String
                                                                    ((Ascii
                                                                    (true,
                                                                    false,
                                                                    true,
                                                                    true,
                                                                    false,
                                                                    true,
                                                                    true,
                                                                    false)),
                                                                    (String
                                                                    ((Ascii
                                                                    (true,
                                                                    true,
                                                                    false,
                                                                    false,
                                                                    true,
                                                                    true,
                                                                    true,
                                                                    false)),
                                                                    (String
                                                                    ((Ascii
                                                                    (true,
                                                                    true,
                                                                    true,
                                                                    false,
                                                                    false,
                                                                    true,
                                                                    true,
                                                                    false)),
                                                                    (String
                                                                    ((Ascii
                                                                    (false,
                                                                    false,
                                                                    false,
                                                                    false,
                                                                    false,
                                                                    true,
                                                                    false,
                                                                    false)),
                                                                    EmptyString)))))))))))))
                                                                   (show_res
                                                                    (fun _ ->
                                                                    [])
                                                                    OutOfFuel))
                                                         else if eqb fn
                                                                   (String
                                                                   ((Ascii
                                                                   (false,
                                                                   true,
                                                                   false,
                                                                   false,
                                                                   true,
                                                                   true,
                                                                   true,
                                                                   false)),
                                                                   (String
                                                                   ((Ascii
                                                                   (true,
                                                                   false,
                                                                   true,
                                                                   false,
                                                                   false,
                                                                   true,
                                                                   true,
                                                                   false)),
                                                                   (String
                                                                   ((Ascii
                                                                   (true,
                                                                   true,
                                                                   false,
                                                                   false,
                                                                   false,
                                                                   true,
                                                                   true,
                                                                   false)),
                                                                   (String
                                                                   ((Ascii
                                                                   (true,
                                                                   false,
                                                                   false,
                                                                   true,
                                                                   false,
                                                                   true,
                                                                   true,
                                                                   false)),
                                                                   (String
                                                                   ((Ascii
                                                                   (false,
                                                                   false,
                                                                   false,
                                                                   false,
                                                                   true,
                                                                   true,
                                                                   true,
                                                                   false)),
                                                                   (String
                                                                   ((Ascii
                                                                   (true,
                                                                   false,
                                                                   false,
                                                                   true,
                                                                   false,
                                                                   true,
                                                                   true,
                                                                   false)),
                                                                   (String
                                                                   ((Ascii
                                                                   (true,
                                                                   false,
                                                                   true,
                                                                   false,
                                                                   false,
                                                                   true,
                                                                   true,
                                                                   false)),
                                                                   (String
                                                                   ((Ascii
                                                                   (false,
                                                                   true,
                                                                   true,
                                                                   true,
                                                                   false,
                                                                   true,
                                                                   true,
                                                                   false)),
                                                                   (String
                                                                   ((Ascii
                                                                   (false,
                                                                   false,
                                                                   true,
                                                                   false,
                                                                   true,
                                                                   true,
                                                                   true,
                                                                   false)),
                                                                   (String
                                                                   ((Ascii
                                                                   (false,
                                                                   true,
                                                                   true,
                                                                   true,
                                                                   false,
                                                                   true,
                                                                   false,
                                                                   false)),
                                                                   (String
                                                                   ((Ascii
                                                                   (false,
                                                                   false,
                                                                   true,
                                                                   false,
                                                                   false,
                                                                   true,
                                                                   true,
                                                                   false)),
                                                                   (String
                                                                   ((Ascii
                                                                   (true,
                                                                   false,
                                                                   true,
                                                                   false,
                                                                   false,
                                                                   true,
                                                                   true,
                                                                   false)),
                                                                   (String
                                                                   ((Ascii
                                                                   (true,
                                                                   true,
                                                                   false,
                                                                   false,
                                                                   false,
                                                                   true,
                                                                   true,
                                                                   false)),
                                                                   (String
                                                                   ((Ascii
                                                                   (false,
                                                                   true,
                                                                   false,
                                                                   false,
                                                                   true,
                                                                   true,
                                                                   true,
                                                                   false)),
                                                                   (String
                                                                   ((Ascii
                                                                   (true,
                                                                   false,
                                                                   false,
                                                                   true,
                                                                   true,
                                                                   true,
                                                                   true,
                                                                   false)),
                                                                   (String
                                                                   ((Ascii
                                                                   (false,
                                                                   false,
                                                                   false,
                                                                   false,
                                                                   true,
                                                                   true,
                                                                   true,
                                                                   false)),
                                                                   (String
                                                                   ((Ascii
                                                                   (false,
                                                                   false,
                                                                   true,
                                                                   false,
                                                                   true,
                                                                   true,
                                                                   true,
                                                                   false)),
                                                                   EmptyString))))))))))))))))))))))))))))))))))
                                                              then (match 
                                                                    get
                                                                    (String
                                                                    ((Ascii
                                                                    (true,
                                                                    true,
                                                                    false,
                                                                    false,
                                                                    false,
                                                                    false,
                                                                    true,
                                                                    false)),
                                                                    (String
                                                                    ((Ascii
                                                                    (true,
                                                                    true,
                                                                    true,
                                                                    true,
                                                                    false,
                                                                    true,
                                                                    true,
                                                                    false)),
                                                                    (String
                                                                    ((Ascii
                                                                    (true,
                                                                    true,
                                                                    false,
                                                                    false,
                                                                    true,
                                                                    true,
                                                                    true,
                                                                    false)),
                                                                    (String
                                                                    ((Ascii
                                                                    (true,
                                                                    false,
                                                                    true,
                                                                    false,
                                                                    false,
                                                                    true,
                                                                    true,
                                                                    false)),
                                                                    (String
                                                                    ((Ascii
                                                                    (false,
                                                                    true,
                                                                    false,
                                                                    false,
                                                                    true,
                                                                    false,
                                                                    true,
                                                                    false)),
                                                                    (String
                                                                    ((Ascii
                                                                    (true,
                                                                    false,
                                                                    true,
                                                                    false,
                                                                    false,
                                                                    true,
                                                                    true,
                                                                    false)),
                                                                    (String
                                                                    ((Ascii
                                                                    (true,
                                                                    true,
                                                                    false,
                                                                    false,
                                                                    false,
                                                                    true,
                                                                    true,
                                                                    false)),
                                                                    (String
                                                                    ((Ascii
                                                                    (true,
                                                                    false,
                                                                    false,
                                                                    true,
                                                                    false,
                                                                    true,
                                                                    true,
                                                                    false)),
                                                                    (String
                                                                    ((Ascii
                                                                    (false,
                                                                    false,
                                                                    false,
                                                                    false,
                                                                    true,
                                                                    true,
                                                                    true,
                                                                    false)),
                                                                    (String
                                                                    ((Ascii
                                                                    (true,
                                                                    false,
                                                                    false,
                                                                    true,
                                                                    false,
                                                                    true,
                                                                    true,
                                                                    false)),
                                                                    (String
                                                                    ((Ascii
                                                                    (true,
                                                                    false,
                                                                    true,
                                                                    false,
                                                                    false,
                                                                    true,
                                                                    true,
                                                                    false)),
                                                                    (String
                                                                    ((Ascii
                                                                    (false,
                                                                    true,
                                                                    true,
                                                                    true,
                                                                    false,
                                                                    true,
                                                                    true,
                                                                    false)),
                                                                    (String
                                                                    ((Ascii
                                                                    (false,
                                                                    false,
                                                                    true,
                                                                    false,
                                                                    true,
                                                                    true,
                                                                    true,
                                                                    false)),
                                                                    EmptyString))))))))))))))))))))))))))
                                                                    coq_CoseRecipient_from_value
                                                                    o_recipient with
                                                                    | Ok m ->
                                                                    (match args with
                                                                    | [] ->
                                                                    badcase
                                                                    | c :: l ->
                                                                    (match l with
                                                                    | [] ->
                                                                    badcase
                                                                    | aad :: l0 ->
                                                                    (match l0 with
                                                                    | [] ->
                                                                    (match 
                                                                    enc_ctx_of
                                                                    (b2s c) with
                                                                    | Some c' ->
                                                                    show_rec
                                                                    (coq_Recipient_decrypt
                                                                    m c' aad
                                                                    record2)
                                                                    | None ->
                                                                    badcase)
                                                                    | _ :: _ ->
                                                                    badcase)))
                                                                    | Err e ->
                                                                    app
                                                                    (s2b
                                                                    (String
                                                                    ((Ascii
                                                                    (false,
                                                                    true,
                                                                    true,
                                                                    true,
                                                                    false,
                                                                    true,
                                                                    true,
                                                                    false)),
                                                                    (String
                                                                    ((Ascii
                                                                    (true,
                                                                    true,
                                                                    true,
                                                                    true,
                                                                    false,
                                                                    true,
                                                                    true,
                                                                    false)),
                                                                    (String
                                                                    ((Ascii
                                                                    (true,
                                                                    false,
                                                                    true,
                                                                    true,
                                                                    false,
                                                                    true,
                                                                    true,
                                                                    false)),
                                                                    (String
                                                                    ((Ascii
                                                                    (true,
                                                                    true,
                                                                    false,
                                                                    false,
                                                                    true,
                                                                    true,
                                                                    true,
                                                                    false)),
                                                                    (String
                                                                    ((Ascii
                                                                    (true,
                                                                    true,
                                                                    true,
                                                                    false,
                                                                    false,
                                                                    true,
                                                                    true,
                                                                    false)),
                                                                    (String
                                                                    ((Ascii
                                                                    (false,
                                                                    false,
                                                                    false,
                                                                    false,
                                                                    false,
                                                                    true,
                                                                    false,
                                                                    false)),
                                                                    EmptyString)))))))))))))
                                                                    (show_res
                                                                    (fun _ ->
                                                                    []) (Err
                                                                    e))
                                                                    | Panic ->
                                                                    app
                                                                    (s2b
                                                                    (String
                                                                    ((Ascii
                                                                    (false,
                                                                    true,
                                                                    true,
                                                                    true,
                                                                    false,
                                                                    true,
                                                                    true,
                                                                    false)),
                                                                    (String
                                                                    ((Ascii
                                                                    (true,
                                                                    true,
                                                                    true,
                                                                    true,
                                                                    false,
                                                                    true,
                                                                    true,
                                                                    false)),
                                                                    (String
                                                                    ((Ascii
                                                                    (true,
                                                                    false,
                                                                    true,
                                                                    true,
                                                                    false,
                                                                    true,
                                                                    true,
                                                                    false)),
                                                                    (String
                                                                    ((Ascii
                                                                    (true,
                                                                    true,
                                                                    false,
                                                                    false,
                                                                    true,
                                                                    true,
                                                                    true,
                                                                    false)),
                                                                    (String
                                                                    ((Ascii
                                                                    (true,
                                                                    true,
                                                                    true,
                                                                    false,
                                                                    false,
                                                                    true,
                                                                    true,
                                                                    false)),
                                                                    (String
                                                                    ((Ascii
                                                                    (false,
                                                                    false,
                                                                    false,
                                                                    false,
                                                                    false,
                                                                    true,
                                                                    false,
                                                                    false)),
                                                                    EmptyString)))))))))))))
                                                                    (show_res
                                                                    (fun _ ->
                                                                    []) Panic)
                                                                    | OutOfFuel ->
                                                                    app
                                                                    (s2b
                                                                    (String
                                                                    ((Ascii
                                                                    (false,
                                                                    true,
                                                                    true,
                                                                    true,
                                                                    false,
                                                                    true,
                                                                    true,
                                                                    false)),
                                                                    (String
                                                                    ((Ascii
                                                                    (true,
                                                                    true,
                                                                    true,
                                                                    true,
                                                                    false,
                                                                    true,
                                                                    true,
                                                                    false)),
                                                                    (String
                                                                    ((Ascii
                                                                    (true,
                                                                    false,
                                                                    true,
                                                                    true,
                                                                    false,
                                                                    true,
                                                                    true,
                                                                    false)),
                                                                    (String
                                                                    ((Ascii
                                                                    (true,
                                                                    true,
                                                                    false,
                                                                    false,
                                                                    true,
                                                                    true,
                                                                    true,
                                                                    false)),
                                                                    (String
                                                                    ((Ascii
                                                                    (true,
                                                                    true,
                                                                    true,
                                                                    false,
                                                                    false,
                                                                    true,
                                                                    true,
                                                                    false)),
                                                                    (String
                                                                    ((Ascii
                                                                    (false,
                                                                    false,
                                                                    false,
                                                                    false,
                                                                    false,
                                                                    true,
                                                                    false,
                                                                    false)),
                                                                    EmptyString)))))))))))))
                                                                    (show_res
                                                                    (fun _ ->
                                                                    [])
                                                                    OutOfFuel))
                                                              else badcase

(** val buildrt_case : string -> value -> bool -> bytes list -> bytes **)

let buildrt_case bt opsv tagged args =
  match lookup_ty bt with
  | Some _ ->
    if eqb bt (String ((Ascii (true, true, false, false, false, false, true,
         false)), (String ((Ascii (true, true, true, true, false, true, true,
         false)), (String ((Ascii (true, true, false, false, true, true,
         true, false)), (String ((Ascii (true, false, true, false, false,
         true, true, false)), (String ((Ascii (true, true, false, false,
         true, false, true, false)), (String ((Ascii (true, false, false,
         true, false, true, true, false)), (String ((Ascii (true, true, true,
         false, false, true, true, false)), (String ((Ascii (false, true,
         true, true, false, true, true, false)), (String ((Ascii (true,
         false, false, false, true, true, false, false)),
         EmptyString))))))))))))))))))
    then let r =
           run_build o_sign1_op sign1_builder_step { s1_prot =
             protected_default; s1_unprot = header_default; s1_payload =
             None; s1_sig = [] } opsv
         in
         (match r with
          | Ok m ->
            (match bind
                     (if tagged
                      then to_tagged_vec coq_CoseSign1_to_value
                             (tag_of (String ((Ascii (true, true, false,
                               false, false, false, true, false)), (String
                               ((Ascii (true, true, true, true, false, true,
                               true, false)), (String ((Ascii (true, true,
                               false, false, true, true, true, false)),
                               (String ((Ascii (true, false, true, false,
                               false, true, true, false)), (String ((Ascii
                               (true, true, false, false, true, false, true,
                               false)), (String ((Ascii (true, false, false,
                               true, false, true, true, false)), (String
                               ((Ascii (true, true, true, false, false, true,
                               true, false)), (String ((Ascii (false, true,
                               true, true, false, true, true, false)),
                               (String ((Ascii (true, false, false, false,
                               true, true, false, false)),
                               EmptyString))))))))))))))))))) m
                      else to_vec coq_CoseSign1_to_value m) (fun b ->
                     bind
                       (if tagged
                        then from_tagged_slice coq_CoseSign1_from_value
                               (tag_of (String ((Ascii (true, true, false,
                                 false, false, false, true, false)), (String
                                 ((Ascii (true, true, true, true, false,
                                 true, true, false)), (String ((Ascii (true,
                                 true, false, false, true, true, true,
                                 false)), (String ((Ascii (true, false, true,
                                 false, false, true, true, false)), (String
                                 ((Ascii (true, true, false, false, true,
                                 false, true, false)), (String ((Ascii (true,
                                 false, false, true, false, true, true,
                                 false)), (String ((Ascii (true, true, true,
                                 false, false, true, true, false)), (String
                                 ((Ascii (false, true, true, true, false,
                                 true, true, false)), (String ((Ascii (true,
                                 false, false, false, true, true, false,
                                 false)), EmptyString))))))))))))))))))) b
                        else from_slice coq_CoseSign1_from_value b) (fun y ->
                       Ok (b, y))) with
             | Ok a ->
               let (b, y) = a in
               app
                 (s2b (String ((Ascii (true, true, true, true, false, true,
                   true, false)), (String ((Ascii (true, true, false, true,
                   false, true, true, false)), (String ((Ascii (false, false,
                   false, false, false, true, false, false)),
                   EmptyString)))))))
                 (app (show_hex b)
                   (app sp
                     (match args with
                      | [] -> badcase
                      | pl :: l ->
                        (match l with
                         | [] ->
                           show_rec (coq_Sign1_verify_signature y pl record2)
                         | aad :: l0 ->
                           (match l0 with
                            | [] ->
                              show_rec
                                (coq_Sign1_verify_detached_signature y pl aad
                                  record2)
                            | _ :: _ -> badcase)))))
             | Err e0 ->
               app
                 (s2b (String ((Ascii (true, true, true, false, true, true,
                   true, false)), (String ((Ascii (true, false, false, true,
                   false, true, true, false)), (String ((Ascii (false, true,
                   false, false, true, true, true, false)), (String ((Ascii
                   (true, false, true, false, false, true, true, false)),
                   (String ((Ascii (false, false, false, false, false, true,
                   false, false)), EmptyString)))))))))))
                 (show_res (fun _ -> []) (Err e0))
             | Panic ->
               app
                 (s2b (String ((Ascii (true, true, true, false, true, true,
                   true, false)), (String ((Ascii (true, false, false, true,
                   false, true, true, false)), (String ((Ascii (false, true,
                   false, false, true, true, true, false)), (String ((Ascii
                   (true, false, true, false, false, true, true, false)),
                   (String ((Ascii (false, false, false, false, false, true,
                   false, false)), EmptyString)))))))))))
                 (show_res (fun _ -> []) Panic)
             | OutOfFuel ->
               app
                 (s2b (String ((Ascii (true, true, true, false, true, true,
                   true, false)), (String ((Ascii (true, false, false, true,
                   false, true, true, false)), (String ((Ascii (false, true,
                   false, false, true, true, true, false)), (String ((Ascii
                   (true, false, true, false, false, true, true, false)),
                   (String ((Ascii (false, false, false, false, false, true,
                   false, false)), EmptyString)))))))))))
                 (show_res (fun _ -> []) OutOfFuel))
          | _ -> show_build (fun _ -> []) r)
    else if eqb bt (String ((Ascii (true, true, false, false, false, false,
              true, false)), (String ((Ascii (true, true, true, true, false,
              true, true, false)), (String ((Ascii (true, true, false, false,
              true, true, true, false)), (String ((Ascii (true, false, true,
              false, false, true, true, false)), (String ((Ascii (true, true,
              false, false, true, false, true, false)), (String ((Ascii
              (true, false, false, true, false, true, true, false)), (String
              ((Ascii (true, true, true, false, false, true, true, false)),
              (String ((Ascii (false, true, true, true, false, true, true,
              false)), EmptyString))))))))))))))))
         then let r =
                run_build o_sign_op sign_builder_step { sn_prot =
                  protected_default; sn_unprot = header_default; sn_payload =
                  None; sn_sigs = [] } opsv
              in
              (match r with
               | Ok m ->
                 (match bind
                          (if tagged
                           then to_tagged_vec coq_CoseSign_to_value
                                  (tag_of (String ((Ascii (true, true, false,
                                    false, false, false, true, false)),
                                    (String ((Ascii (true, true, true, true,
                                    false, true, true, false)), (String
                                    ((Ascii (true, true, false, false, true,
                                    true, true, false)), (String ((Ascii
                                    (true, false, true, false, false, true,
                                    true, false)), (String ((Ascii (true,
                                    true, false, false, true, false, true,
                                    false)), (String ((Ascii (true, false,
                                    false, true, false, true, true, false)),
                                    (String ((Ascii (true, true, true, false,
                                    false, true, true, false)), (String
                                    ((Ascii (false, true, true, true, false,
                                    true, true, false)),
                                    EmptyString))))))))))))))))) m
                           else to_vec coq_CoseSign_to_value m) (fun b ->
                          bind
                            (if tagged
                             then from_tagged_slice coq_CoseSign_from_value
                                    (tag_of (String ((Ascii (true, true,
                                      false, false, false, false, true,
                                      false)), (String ((Ascii (true, true,
                                      true, true, false, true, true, false)),
                                      (String ((Ascii (true, true, false,
                                      false, true, true, true, false)),
                                      (String ((Ascii (true, false, true,
                                      false, false, true, true, false)),
                                      (String ((Ascii (true, true, false,
                                      false, true, false, true, false)),
                                      (String ((Ascii (true, false, false,
                                      true, false, true, true, false)),
                                      (String ((Ascii (true, true, true,
                                      false, false, true, true, false)),
                                      (String ((Ascii (false, true, true,
                                      true, false, true, true, false)),
                                      EmptyString))))))))))))))))) b
                             else from_slice coq_CoseSign_from_value b)
                            (fun y -> Ok (b, y))) with
                  | Ok a ->
                    let (b, y) = a in
                    app
                      (s2b (String ((Ascii (true, true, true, true, false,
                        true, true, false)), (String ((Ascii (true, true,
                        false, true, false, true, true, false)), (String
                        ((Ascii (false, false, false, false, false, true,
                        false, false)), EmptyString)))))))
                      (app (show_hex b)
                        (app sp
                          (match args with
                           | [] -> badcase
                           | w :: l ->
                             (match l with
                              | [] -> badcase
                              | pl :: l0 ->
                                (match l0 with
                                 | [] ->
                                   show_rec
                                     (coq_Sign_verify_signature y
                                       (nat_of_arg w) pl record2)
                                 | aad :: l1 ->
                                   (match l1 with
                                    | [] ->
                                      show_rec
                                        (coq_Sign_verify_detached_signature y
                                          (nat_of_arg w) pl aad record2)
                                    | _ :: _ -> badcase))))))
                  | Err e0 ->
                    app
                      (s2b (String ((Ascii (true, true, true, false, true,
                        true, true, false)), (String ((Ascii (true, false,
                        false, true, false, true, true, false)), (String
                        ((Ascii (false, true, false, false, true, true, true,
                        false)), (String ((Ascii (true, false, true, false,
                        false, true, true, false)), (String ((Ascii (false,
                        false, false, false, false, true, false, false)),
                        EmptyString)))))))))))
                      (show_res (fun _ -> []) (Err e0))
                  | Panic ->
                    app
                      (s2b (String ((Ascii (true, true, true, false, true,
                        true, true, false)), (String ((Ascii (true, false,
                        false, true, false, true, true, false)), (String
                        ((Ascii (false, true, false, false, true, true, true,
                        false)), (String ((Ascii (true, false, true, false,
                        false, true, true, false)), (String ((Ascii (false,
                        false, false, false, false, true, false, false)),
                        EmptyString))))))))))) (show_res (fun _ -> []) Panic)
                  | OutOfFuel ->
                    app
                      (s2b (String ((Ascii (true, true, true, false, true,
                        true, true, false)), (String ((Ascii (true, false,
                        false, true, false, true, true, false)), (String
                        ((Ascii (false, true, false, false, true, true, true,
                        false)), (String ((Ascii (true, false, true, false,
                        false, true, true, false)), (String ((Ascii (false,
                        false, false, false, false, true, false, false)),
                        EmptyString)))))))))))
                      (show_res (fun _ -> []) OutOfFuel))
               | _ -> show_build (fun _ -> []) r)
         else if eqb bt (String ((Ascii (true, true, false, false, false,
                   false, true, false)), (String ((Ascii (true, true, true,
                   true, false, true, true, false)), (String ((Ascii (true,
                   true, false, false, true, true, true, false)), (String
                   ((Ascii (true, false, true, false, false, true, true,
                   false)), (String ((Ascii (true, false, true, true, false,
                   false, true, false)), (String ((Ascii (true, false, false,
                   false, false, true, true, false)), (String ((Ascii (true,
                   true, false, false, false, true, true, false)), (String
                   ((Ascii (false, false, false, false, true, true, false,
                   false)), EmptyString))))))))))))))))
              then let r =
                     run_build o_mac0_op mac0_builder_step { m0_prot =
                       protected_default; m0_unprot = header_default;
                       m0_payload = None; m0_tag = [] } opsv
                   in
                   (match r with
                    | Ok m ->
                      (match bind
                               (if tagged
                                then to_tagged_vec coq_CoseMac0_to_value
                                       (tag_of (String ((Ascii (true, true,
                                         false, false, false, false, true,
                                         false)), (String ((Ascii (true,
                                         true, true, true, false, true, true,
                                         false)), (String ((Ascii (true,
                                         true, false, false, true, true,
                                         true, false)), (String ((Ascii
                                         (true, false, true, false, false,
                                         true, true, false)), (String ((Ascii
                                         (true, false, true, true, false,
                                         false, true, false)), (String
                                         ((Ascii (true, false, false, false,
                                         false, true, true, false)), (String
                                         ((Ascii (true, true, false, false,
                                         false, true, true, false)), (String
                                         ((Ascii (false, false, false, false,
                                         true, true, false, false)),
                                         EmptyString))))))))))))))))) m
                                else to_vec coq_CoseMac0_to_value m)
                               (fun b ->
                               bind
                                 (if tagged
                                  then from_tagged_slice
                                         coq_CoseMac0_from_value
                                         (tag_of (String ((Ascii (true, true,
                                           false, false, false, false, true,
                                           false)), (String ((Ascii (true,
                                           true, true, true, false, true,
                                           true, false)), (String ((Ascii
                                           (true, true, false, false, true,
                                           true, true, false)), (String
                                           ((Ascii (true, false, true, false,
                                           false, true, true, false)),
                                           (String ((Ascii (true, false,
                                           true, true, false, false, true,
                                           false)), (String ((Ascii (true,
                                           false, false, false, false, true,
                                           true, false)), (String ((Ascii
                                           (true, true, false, false, false,
                                           true, true, false)), (String
                                           ((Ascii (false, false, false,
                                           false, true, true, false, false)),
                                           EmptyString))))))))))))))))) b
                                  else from_slice coq_CoseMac0_from_value b)
                                 (fun y -> Ok (b, y))) with
                       | Ok a ->
                         let (b, y) = a in
                         app
                           (s2b (String ((Ascii (true, true, true, true,
                             false, true, true, false)), (String ((Ascii
                             (true, true, false, true, false, true, true,
                             false)), (String ((Ascii (false, false, false,
                             false, false, true, false, false)),
                             EmptyString)))))))
                           (app (show_hex b)
                             (app sp
                               (match args with
                                | [] -> badcase
                                | aad :: l ->
                                  (match l with
                                   | [] ->
                                     show_rec
                                       (coq_Mac0_verify_tag y aad record2)
                                   | _ :: _ -> badcase))))
                       | Err e0 ->
                         app
                           (s2b (String ((Ascii (true, true, true, false,
                             true, true, true, false)), (String ((Ascii
                             (true, false, false, true, false, true, true,
                             false)), (String ((Ascii (false, true, false,
                             false, true, true, true, false)), (String
                             ((Ascii (true, false, true, false, false, true,
                             true, false)), (String ((Ascii (false, false,
                             false, false, false, true, false, false)),
                             EmptyString)))))))))))
                           (show_res (fun _ -> []) (Err e0))
                       | Panic ->
                         app
                           (s2b (String ((Ascii (true, true, true, false,
                             true, true, true, false)), (String ((Ascii
                             (true, false, false, true, false, true, true,
                             false)), (String ((Ascii (false, true, false,
                             false, true, true, true, false)), (String
                             ((Ascii (true, false, true, false, false, true,
                             true, false)), (String ((Ascii (false, false,
                             false, false, false, true, false, false)),
                             EmptyString)))))))))))
                           (show_res (fun _ -> []) Panic)
                       | OutOfFuel ->
                         app
                           (s2b (String ((Ascii (true, true, true, false,
                             true, true, true, false)), (String ((Ascii
                             (true, false, false, true, false, true, true,
                             false)), (String ((Ascii (false, true, false,
                             false, true, true, true, false)), (String
                             ((Ascii (true, false, true, false, false, true,
                             true, false)), (String ((Ascii (false, false,
                             false, false, false, true, false, false)),
                             EmptyString)))))))))))
                           (show_res (fun _ -> []) OutOfFuel))
                    | _ -> show_build (fun _ -> []) r)
              else if eqb bt (String ((Ascii (true, true, false, false,
                        false, false, true, false)), (String ((Ascii (true,
                        true, true, true, false, true, true, false)), (String
                        ((Ascii (true, true, false, false, true, true, true,
                        false)), (String ((Ascii (true, false, true, false,
                        false, true, true, false)), (String ((Ascii (true,
                        false, true, true, false, false, true, false)),
                        (String ((Ascii (true, false, false, false, false,
                        true, true, false)), (String ((Ascii (true, true,
                        false, false, false, true, true, false)),
                        EmptyString))))))))))))))
                   then let r =
                          run_build o_mac_op mac_builder_step { mc_prot =
                            protected_default; mc_unprot = header_default;
                            mc_payload = None; mc_tag = []; mc_recipients =
                            [] } opsv
                        in
                        (match r with
                         | Ok m ->
                           (match bind
                                    (if tagged
                                     then to_tagged_vec coq_CoseMac_to_value
                                            (tag_of (String ((Ascii (true,
                                              true, false, false, false,
                                              false, true, false)), (String
                                              ((Ascii (true, true, true,
                                              true, false, true, true,
                                              false)), (String ((Ascii (true,
                                              true, false, false, true, true,
                                              true, false)), (String ((Ascii
                                              (true, false, true, false,
                                              false, true, true, false)),
                                              (String ((Ascii (true, false,
                                              true, true, false, false, true,
                                              false)), (String ((Ascii (true,
                                              false, false, false, false,
                                              true, true, false)), (String
                                              ((Ascii (true, true, false,
                                              false, false, true, true,
                                              false)),
                                              EmptyString))))))))))))))) m
                                     else to_vec coq_CoseMac_to_value m)
                                    (fun b ->
                                    bind
                                      (if tagged
                                       then from_tagged_slice
                                              coq_CoseMac_from_value
                                              (tag_of (String ((Ascii (true,
                                                true, false, false, false,
                                                false, true, false)), (String
                                                ((Ascii (true, true, true,
                                                true, false, true, true,
                                                false)), (String ((Ascii
                                                (true, true, false, false,
                                                true, true, true, false)),
                                                (String ((Ascii (true, false,
                                                true, false, false, true,
                                                true, false)), (String
                                                ((Ascii (true, false, true,
                                                true, false, false, true,
                                                false)), (String ((Ascii
                                                (true, false, false, false,
                                                false, true, true, false)),
                                                (String ((Ascii (true, true,
                                                false, false, false, true,
                                                true, false)),
                                                EmptyString))))))))))))))) b
                                       else from_slice coq_CoseMac_from_value
                                              b) (fun y -> Ok (b, y))) with
                            | Ok a ->
                              let (b, y) = a in
                              app
                                (s2b (String ((Ascii (true, true, true, true,
                                  false, true, true, false)), (String ((Ascii
                                  (true, true, false, true, false, true,
                                  true, false)), (String ((Ascii (false,
                                  false, false, false, false, true, false,
                                  false)), EmptyString)))))))
                                (app (show_hex b)
                                  (app sp
                                    (match args with
                                     | [] -> badcase
                                     | aad :: l ->
                                       (match l with
                                        | [] ->
                                          show_rec
                                            (coq_Mac_verify_tag y aad record2)
                                        | _ :: _ -> badcase))))
                            | Err e0 ->
                              app
                                (s2b (String ((Ascii (true, true, true,
                                  false, true, true, true, false)), (String
                                  ((Ascii (true, false, false, true, false,
                                  true, true, false)), (String ((Ascii
                                  (false, true, false, false, true, true,
                                  true, false)), (String ((Ascii (true,
                                  false, true, false, false, true, true,
                                  false)), (String ((Ascii (false, false,
                                  false, false, false, true, false, false)),
                                  EmptyString)))))))))))
                                (show_res (fun _ -> []) (Err e0))
                            | Panic ->
                              app
                                (s2b (String ((Ascii (true, true, true,
                                  false, true, true, true, false)), (String
                                  ((Ascii (true, false, false, true, false,
                                  true, true, false)), (String ((Ascii
                                  (false, true, false, false, true, true,
                                  true, false)), (String ((Ascii (true,
                                  false, true, false, false, true, true,
                                  false)), (String ((Ascii (false, false,
                                  false, false, false, true, false, false)),
                                  EmptyString)))))))))))
                                (show_res (fun _ -> []) Panic)
                            | OutOfFuel ->
                              app
                                (s2b (String ((Ascii (true, true, true,
                                  false, true, true, true, false)), (String
                                  ((Ascii (true, false, false, true, false,
                                  true, true, false)), (String ((Ascii
                                  (false, true, false, false, true, true,
                                  true, false)), (String ((Ascii (true,
                                  false, true, false, false, true, true,
                                  false)), (String ((Ascii (false, false,
                                  false, false, false, true, false, false)),
                                  EmptyString)))))))))))
                                (show_res (fun _ -> []) OutOfFuel))
                         | _ -> show_build (fun _ -> []) r)
                   else if eqb bt (String ((Ascii (true, true, false, false,
                             false, false, true, false)), (String ((Ascii
                             (true, true, true, true, false, true, true,
                             false)), (String ((Ascii (true, true, false,
                             false, true, true, true, false)), (String
                             ((Ascii (true, false, true, false, false, true,
                             true, false)), (String ((Ascii (true, false,
                             true, false, false, false, true, false)),
                             (String ((Ascii (false, true, true, true, false,
                             true, true, false)), (String ((Ascii (true,
                             true, false, false, false, true, true, false)),
                             (String ((Ascii (false, true, false, false,
                             true, true, true, false)), (String ((Ascii
                             (true, false, false, true, true, true, true,
                             false)), (String ((Ascii (false, false, false,
                             false, true, true, true, false)), (String
                             ((Ascii (false, false, true, false, true, true,
                             true, false)), EmptyString))))))))))))))))))))))
                        then let r =
                               run_build o_encrypt_op encrypt_builder_step
                                 { en_prot = protected_default; en_unprot =
                                 header_default; en_ct = None;
                                 en_recipients = [] } opsv
                             in
                             (match r with
                              | Ok m ->
                                (match bind
                                         (if tagged
                                          then to_tagged_vec
                                                 coq_CoseEncrypt_to_value
                                                 (tag_of (String ((Ascii
                                                   (true, true, false, false,
                                                   false, false, true,
                                                   false)), (String ((Ascii
                                                   (true, true, true, true,
                                                   false, true, true,
                                                   false)), (String ((Ascii
                                                   (true, true, false, false,
                                                   true, true, true, false)),
                                                   (String ((Ascii (true,
                                                   false, true, false, false,
                                                   true, true, false)),
                                                   (String ((Ascii (true,
                                                   false, true, false, false,
                                                   false, true, false)),
                                                   (String ((Ascii (false,
                                                   true, true, true, false,
                                                   true, true, false)),
                                                   (String ((Ascii (true,
                                                   true, false, false, false,
                                                   true, true, false)),
                                                   (String ((Ascii (false,
                                                   true, false, false, true,
                                                   true, true, false)),
                                                   (String ((Ascii (true,
                                                   false, false, true, true,
                                                   true, true, false)),
                                                   (String ((Ascii (false,
                                                   false, false, false, true,
                                                   true, true, false)),
                                                   (String ((Ascii (false,
                                                   false, true, false, true,
                                                   true, true, false)),
                                                   EmptyString)))))))))))))))))))))))
                                                 m
                                          else to_vec
                                                 coq_CoseEncrypt_to_value m)
                                         (fun b ->
                                         bind
                                           (if tagged
                                            then from_tagged_slice
                                                   coq_CoseEncrypt_from_value
                                                   (tag_of (String ((Ascii
                                                     (true, true, false,
                                                     false, false, false,
                                                     true, false)), (String
                                                     ((Ascii (true, true,
                                                     true, true, false, true,
                                                     true, false)), (String
                                                     ((Ascii (true, true,
                                                     false, false, true,
                                                     true, true, false)),
                                                     (String ((Ascii (true,
                                                     false, true, false,
                                                     false, true, true,
                                                     false)), (String ((Ascii
                                                     (true, false, true,
                                                     false, false, false,
                                                     true, false)), (String
                                                     ((Ascii (false, true,
                                                     true, true, false, true,
                                                     true, false)), (String
                                                     ((Ascii (true, true,
                                                     false, false, false,
                                                     true, true, false)),
                                                     (String ((Ascii (false,
                                                     true, false, false,
                                                     true, true, true,
                                                     false)), (String ((Ascii
                                                     (true, false, false,
                                                     true, true, true, true,
                                                     false)), (String ((Ascii
                                                     (false, false, false,
                                                     false, true, true, true,
                                                     false)), (String ((Ascii
                                                     (false, false, true,
                                                     false, true, true, true,
                                                     false)),
                                                     EmptyString)))))))))))))))))))))))
                                                   b
                                            else from_slice
                                                   coq_CoseEncrypt_from_value
                                                   b) (fun y -> Ok (b, y))) with
                                 | Ok a ->
                                   let (b, y) = a in
                                   app
                                     (s2b (String ((Ascii (true, true, true,
                                       true, false, true, true, false)),
                                       (String ((Ascii (true, true, false,
                                       true, false, true, true, false)),
                                       (String ((Ascii (false, false, false,
                                       false, false, true, false, false)),
                                       EmptyString)))))))
                                     (app (show_hex b)
                                       (app sp
                                         (match args with
                                          | [] -> badcase
                                          | aad :: l ->
                                            (match l with
                                             | [] ->
                                               show_rec
                                                 (coq_Encrypt_decrypt y aad
                                                   record2)
                                             | _ :: _ -> badcase))))
                                 | Err e0 ->
                                   app
                                     (s2b (String ((Ascii (true, true, true,
                                       false, true, true, true, false)),
                                       (String ((Ascii (true, false, false,
                                       true, false, true, true, false)),
                                       (String ((Ascii (false, true, false,
                                       false, true, true, true, false)),
                                       (String ((Ascii (true, false, true,
                                       false, false, true, true, false)),
                                       (String ((Ascii (false, false, false,
                                       false, false, true, false, false)),
                                       EmptyString)))))))))))
                                     (show_res (fun _ -> []) (Err e0))
                                 | Panic ->
                                   app
                                     (s2b (String ((Ascii (true, true, true,
                                       false, true, true, true, false)),
                                       (String ((Ascii (true, false, false,
                                       true, false, true, true, false)),
                                       (String ((Ascii (false, true, false,
                                       false, true, true, true, false)),
                                       (String ((Ascii (true, false, true,
                                       false, false, true, true, false)),
                                       (String ((Ascii (false, false, false,
                                       false, false, true, false, false)),
                                       EmptyString)))))))))))
                                     (show_res (fun _ -> []) Panic)
                                 | OutOfFuel ->
                                   app
                                     (s2b (String ((Ascii (true, true, true,
                                       false, true, true, true, false)),
                                       (String ((Ascii (true, false, false,
                                       true, false, true, true, false)),
                                       (String ((Ascii (false, true, false,
                                       false, true, true, true, false)),
                                       (String ((Ascii (true, false, true,
                                       false, false, true, true, false)),
                                       (String ((Ascii (false, false, false,
                                       false, false, true, false, false)),
                                       EmptyString)))))))))))
                                     (show_res (fun _ -> []) OutOfFuel))
                              | _ -> show_build (fun _ -> []) r)
                        else if eqb bt (String ((Ascii (true, true, false,
                                  false, false, false, true, false)), (String
                                  ((Ascii (true, true, true, true, false,
                                  true, true, false)), (String ((Ascii (true,
                                  true, false, false, true, true, true,
                                  false)), (String ((Ascii (true, false,
                                  true, false, false, true, true, false)),
                                  (String ((Ascii (true, false, true, false,
                                  false, false, true, false)), (String
                                  ((Ascii (false, true, true, true, false,
                                  true, true, false)), (String ((Ascii (true,
                                  true, false, false, false, true, true,
                                  false)), (String ((Ascii (false, true,
                                  false, false, true, true, true, false)),
                                  (String ((Ascii (true, false, false, true,
                                  true, true, true, false)), (String ((Ascii
                                  (false, false, false, false, true, true,
                                  true, false)), (String ((Ascii (false,
                                  false, true, false, true, true, true,
                                  false)), (String ((Ascii (false, false,
                                  false, false, true, true, false, false)),
                                  EmptyString))))))))))))))))))))))))
                             then let r =
                                    run_build o_encrypt0_op
                                      encrypt0_builder_step { e0_prot =
                                      protected_default; e0_unprot =
                                      header_default; e0_ct = None } opsv
                                  in
                                  (match r with
                                   | Ok m ->
                                     (match bind
                                              (if tagged
                                               then to_tagged_vec
                                                      coq_CoseEncrypt0_to_value
                                                      (tag_of (String ((Ascii
                                                        (true, true, false,
                                                        false, false, false,
                                                        true, false)),
                                                        (String ((Ascii
                                                        (true, true, true,
                                                        true, false, true,
                                                        true, false)),
                                                        (String ((Ascii
                                                        (true, true, false,
                                                        false, true, true,
                                                        true, false)),
                                                        (String ((Ascii
                                                        (true, false, true,
                                                        false, false, true,
                                                        true, false)),
                                                        (String ((Ascii
                                                        (true, false, true,
                                                        false, false, false,
                                                        true, false)),
                                                        (String ((Ascii
                                                        (false, true, true,
                                                        true, false, true,
                                                        true, false)),
                                                        (String ((Ascii
                                                        (true, true, false,
                                                        false, false, true,
                                                        true, false)),
                                                        (String ((Ascii
                                                        (false, true, false,
                                                        false, true, true,
                                                        true, false)),
                                                        (String ((Ascii
                                                        (true, false, false,
                                                        true, true, true,
                                                        true, false)),
                                                        (String ((Ascii
                                                        (false, false, false,
                                                        false, true, true,
                                                        true, false)),
                                                        (String ((Ascii
                                                        (false, false, true,
                                                        false, true, true,
                                                        true, false)),
                                                        (String ((Ascii
                                                        (false, false, false,
                                                        false, true, true,
                                                        false, false)),
                                                        EmptyString)))))))))))))))))))))))))
                                                      m
                                               else to_vec
                                                      coq_CoseEncrypt0_to_value
                                                      m) (fun b ->
                                              bind
                                                (if tagged
                                                 then from_tagged_slice
                                                        coq_CoseEncrypt0_from_value
                                                        (tag_of (String
                                                          ((Ascii (true,
                                                          true, false, false,
                                                          false, false, true,
                                                          false)), (String
                                                          ((Ascii (true,
                                                          true, true, true,
                                                          false, true, true,
                                                          false)), (String
                                                          ((Ascii (true,
                                                          true, false, false,
                                                          true, true, true,
                                                          false)), (String
                                                          ((Ascii (true,
                                                          false, true, false,
                                                          false, true, true,
                                                          false)), (String
                                                          ((Ascii (true,
                                                          false, true, false,
                                                          false, false, true,
                                                          false)), (String
                                                          ((Ascii (false,
                                                          true, true, true,
                                                          false, true, true,
                                                          false)), (String
                                                          ((Ascii (true,
                                                          true, false, false,
                                                          false, true, true,
                                                          false)), (String
                                                          ((Ascii (false,
                                                          true, false, false,
                                                          true, true, true,
                                                          false)), (String
                                                          ((Ascii (true,
                                                          false, false, true,
                                                          true, true, true,
                                                          false)), (String
                                                          ((Ascii (false,
                                                          false, false,
                                                          false, true, true,
                                                          true, false)),
                                                          (String ((Ascii
                                                          (false, false,
                                                          true, false, true,
                                                          true, true,
                                                          false)), (String
                                                          ((Ascii (false,
                                                          false, false,
                                                          false, true, true,
                                                          false, false)),
                                                          EmptyString)))))))))))))))))))))))))
                                                        b
                                                 else from_slice
                                                        coq_CoseEncrypt0_from_value
                                                        b) (fun y -> Ok (b,
                                                y))) with
                                      | Ok a ->
                                        let (b, y) = a in
                                        app
                                          (s2b (String ((Ascii (true, true,
                                            true, true, false, true, true,
                                            false)), (String ((Ascii (true,
                                            true, false, true, false, true,
                                            true, false)), (String ((Ascii
                                            (false, false, false, false,
                                            false, true, false, false)),
                                            EmptyString)))))))
                                          (app (show_hex b)
                                            (app sp
                                              (match args with
                                               | [] -> badcase
                                               | aad :: l ->
                                                 (match l with
                                                  | [] ->
                                                    show_rec
                                                      (coq_Encrypt0_decrypt y
                                                        aad record2)
                                                  | _ :: _ -> badcase))))
                                      | Err e0 ->
                                        app
                                          (s2b (String ((Ascii (true, true,
                                            true, false, true, true, true,
                                            false)), (String ((Ascii (true,
                                            false, false, true, false, true,
                                            true, false)), (String ((Ascii
                                            (false, true, false, false, true,
                                            true, true, false)), (String
                                            ((Ascii (true, false, true,
                                            false, false, true, true,
                                            false)), (String ((Ascii (false,
                                            false, false, false, false, true,
                                            false, false)),
                                            EmptyString)))))))))))
                                          (show_res (fun _ -> []) (Err e0))
                                      | Panic ->
                                        app
                                          (s2b (String ((Ascii (true, true,
                                            true, false, true, true, true,
                                            false)), (String ((Ascii (true,
                                            false, false, true, false, true,
                                            true, false)), (String ((Ascii
                                            (false, true, false, false, true,
                                            true, true, false)), (String
                                            ((Ascii (true, false, true,
                                            false, false, true, true,
                                            false)), (String ((Ascii (false,
                                            false, false, false, false, true,
                                            false, false)),
                                            EmptyString)))))))))))
                                          (show_res (fun _ -> []) Panic)
                                      | OutOfFuel ->
                                        app
                                          (s2b (String ((Ascii (true, true,
                                            true, false, true, true, true,
                                            false)), (String ((Ascii (true,
                                            false, false, true, false, true,
                                            true, false)), (String ((Ascii
                                            (false, true, false, false, true,
                                            true, true, false)), (String
                                            ((Ascii (true, false, true,
                                            false, false, true, true,
                                            false)), (String ((Ascii (false,
                                            false, false, false, false, true,
                                            false, false)),
                                            EmptyString)))))))))))
                                          (show_res (fun _ -> []) OutOfFuel))
                                   | _ -> show_build (fun _ -> []) r)
                             else if eqb bt (String ((Ascii (true, true,
                                       false, false, false, false, true,
                                       false)), (String ((Ascii (true, true,
                                       true, true, false, true, true,
                                       false)), (String ((Ascii (true, true,
                                       false, false, true, true, true,
                                       false)), (String ((Ascii (true, false,
                                       true, false, false, true, true,
                                       false)), (String ((Ascii (false, true,
                                       false, false, true, false, true,
                                       false)), (String ((Ascii (true, false,
                                       true, false, false, true, true,
                                       false)), (String ((Ascii (true, true,
                                       false, false, false, true, true,
                                       false)), (String ((Ascii (true, false,
                                       false, true, false, true, true,
                                       false)), (String ((Ascii (false,
                                       false, false, false, true, true, true,
                                       false)), (String ((Ascii (true, false,
                                       false, true, false, true, true,
                                       false)), (String ((Ascii (true, false,
                                       true, false, false, true, true,
                                       false)), (String ((Ascii (false, true,
                                       true, true, false, true, true,
                                       false)), (String ((Ascii (false,
                                       false, true, false, true, true, true,
                                       false)),
                                       EmptyString))))))))))))))))))))))))))
                                  then let r =
                                         run_build o_recipient_op
                                           recipient_builder_step { r_prot =
                                           protected_default; r_unprot =
                                           header_default; r_ct = None;
                                           r_recipients = [] } opsv
                                       in
                                       (match r with
                                        | Ok m ->
                                          (match bind
                                                   (to_vec
                                                     coq_CoseRecipient_to_value
                                                     m) (fun b ->
                                                   bind
                                                     (from_slice
                                                       coq_CoseRecipient_from_value
                                                       b) (fun y -> Ok (b, y))) with
                                           | Ok a ->
                                             let (b, y) = a in
                                             app
                                               (s2b (String ((Ascii (true,
                                                 true, true, true, false,
                                                 true, true, false)), (String
                                                 ((Ascii (true, true, false,
                                                 true, false, true, true,
                                                 false)), (String ((Ascii
                                                 (false, false, false, false,
                                                 false, true, false, false)),
                                                 EmptyString)))))))
                                               (app (show_hex b)
                                                 (app sp
                                                   (match args with
                                                    | [] -> badcase
                                                    | c :: l ->
                                                      (match l with
                                                       | [] -> badcase
                                                       | aad :: l0 ->
                                                         (match l0 with
                                                          | [] ->
                                                            (match enc_ctx_of
                                                                    (b2s c) with
                                                             | Some c' ->
                                                               show_rec
                                                                 (coq_Recipient_decrypt
                                                                   y c' aad
                                                                   record2)
                                                             | None -> badcase)
                                                          | _ :: _ -> badcase)))))
                                           | Err e0 ->
                                             app
                                               (s2b (String ((Ascii (true,
                                                 true, true, false, true,
                                                 true, true, false)), (String
                                                 ((Ascii (true, false, false,
                                                 true, false, true, true,
                                                 false)), (String ((Ascii
                                                 (false, true, false, false,
                                                 true, true, true, false)),
                                                 (String ((Ascii (true,
                                                 false, true, false, false,
                                                 true, true, false)), (String
                                                 ((Ascii (false, false,
                                                 false, false, false, true,
                                                 false, false)),
                                                 EmptyString)))))))))))
                                               (show_res (fun _ -> []) (Err
                                                 e0))
                                           | Panic ->
                                             app
                                               (s2b (String ((Ascii (true,
                                                 true, true, false, true,
                                                 true, true, false)), (String
                                                 ((Ascii (true, false, false,
                                                 true, false, true, true,
                                                 false)), (String ((Ascii
                                                 (false, true, false, false,
                                                 true, true, true, false)),
                                                 (String ((Ascii (true,
                                                 false, true, false, false,
                                                 true, true, false)), (String
                                                 ((Ascii (false, false,
                                                 false, false, false, true,
                                                 false, false)),
                                                 EmptyString)))))))))))
                                               (show_res (fun _ -> []) Panic)
                                           | OutOfFuel ->
                                             app
                                               (s2b (String ((Ascii (true,
                                                 true, true, false, true,
                                                 true, true, false)), (String
                                                 ((Ascii (true, false, false,
                                                 true, false, true, true,
                                                 false)), (String ((Ascii
                                                 (false, true, false, false,
                                                 true, true, true, false)),
                                                 (String ((Ascii (true,
                                                 false, true, false, false,
                                                 true, true, false)), (String
                                                 ((Ascii (false, false,
                                                 false, false, false, true,
                                                 false, false)),
                                                 EmptyString)))))))))))
                                               (show_res (fun _ -> [])
                                                 OutOfFuel))
                                        | _ -> show_build (fun _ -> []) r)
                                  else badcase
  | None -> badcase

(** val cmp_case : string -> value -> value -> bytes **)

let cmp_case kind a b =
  if eqb kind (String ((Ascii (false, false, true, true, false, true, true,
       false)), (String ((Ascii (true, false, false, false, false, true,
       true, false)), (String ((Ascii (false, true, false, false, false,
       true, true, false)), (String ((Ascii (true, false, true, false, false,
       true, true, false)), (String ((Ascii (false, false, true, true, false,
       true, true, false)), EmptyString))))))))))
  then (match o_label a with
        | Ok x ->
          (match o_label b with
           | Ok y ->
             app
               (s2b (String ((Ascii (true, true, true, true, false, true,
                 true, false)), (String ((Ascii (true, true, false, true,
                 false, true, true, false)), (String ((Ascii (false, false,
                 false, false, false, true, false, false)), EmptyString)))))))
               (app (show_cmp (label_cmp x y))
                 (app sp (show_bool (label_eqb x y))))
           | _ -> badcase)
        | _ -> badcase)
  else if eqb kind (String ((Ascii (true, true, false, false, false, true,
            true, false)), (String ((Ascii (true, false, false, false, false,
            true, true, false)), (String ((Ascii (false, true, true, true,
            false, true, true, false)), (String ((Ascii (true, true, true,
            true, false, true, true, false)), (String ((Ascii (false, true,
            true, true, false, true, true, false)), (String ((Ascii (true,
            false, false, true, false, true, true, false)), (String ((Ascii
            (true, true, false, false, false, true, true, false)), (String
            ((Ascii (true, false, false, false, false, true, true, false)),
            (String ((Ascii (false, false, true, true, false, true, true,
            false)), EmptyString))))))))))))))))))
       then (match o_label a with
             | Ok x ->
               (match o_label b with
                | Ok y ->
                  app
                    (s2b (String ((Ascii (true, true, true, true, false,
                      true, true, false)), (String ((Ascii (true, true,
                      false, true, false, true, true, false)), (String
                      ((Ascii (false, false, false, false, false, true,
                      false, false)), EmptyString)))))))
                    (app (show_cmp (cmp_canonical x y))
                      (app sp (show_bool (label_eqb x y))))
                | _ -> badcase)
             | _ -> badcase)
       else if eqb kind (String ((Ascii (false, true, false, false, true,
                 true, true, false)), (String ((Ascii (true, false, true,
                 false, false, true, true, false)), (String ((Ascii (true,
                 true, true, false, false, true, true, false)),
                 EmptyString))))))
            then (match o_reg a with
                  | Ok x ->
                    (match o_reg b with
                     | Ok y ->
                       app
                         (s2b (String ((Ascii (true, true, true, true, false,
                           true, true, false)), (String ((Ascii (true, true,
                           false, true, false, true, true, false)), (String
                           ((Ascii (false, false, false, false, false, true,
                           false, false)), EmptyString)))))))
                         (app (show_cmp (reg_cmp x y))
                           (app sp (show_bool (reg_eqb x y))))
                     | _ -> badcase)
                  | _ -> badcase)
            else if eqb kind (String ((Ascii (false, true, false, false,
                      true, true, true, false)), (String ((Ascii (true,
                      false, true, false, false, true, true, false)), (String
                      ((Ascii (true, true, true, false, false, true, true,
                      false)), (String ((Ascii (false, false, false, false,
                      true, true, true, false)), EmptyString))))))))
                 then (match o_regp a with
                       | Ok x ->
                         (match o_regp b with
                          | Ok y ->
                            app
                              (s2b (String ((Ascii (true, true, true, true,
                                false, true, true, false)), (String ((Ascii
                                (true, true, false, true, false, true, true,
                                false)), (String ((Ascii (false, false,
                                false, false, false, true, false, false)),
                                EmptyString)))))))
                              (app (show_cmp (regp_cmp x y))
                                (app sp (show_bool (regp_eqb x y))))
                          | _ -> badcase)
                       | _ -> badcase)
                 else badcase

(** val iana_case : string -> coq_Z -> bytes **)

let iana_case reg i =
  let t = table_of reg in
  app
    (s2b (String ((Ascii (true, true, true, true, false, true, true, false)),
      (String ((Ascii (true, true, false, true, false, true, true, false)),
      (String ((Ascii (false, false, false, false, false, true, false,
      false)), EmptyString)))))))
    (app
      (match from_i64 t i with
       | Some n ->
         app (s2b n)
           (app sp
             (s2b
               (match to_i64 t n with
                | Some z -> of_Z z
                | None ->
                  String ((Ascii (true, true, true, true, true, true, false,
                    false)), EmptyString))))
       | None ->
         s2b (String ((Ascii (false, true, true, true, false, true, true,
           false)), (String ((Ascii (true, true, true, true, false, true,
           true, false)), (String ((Ascii (false, true, true, true, false,
           true, true, false)), (String ((Ascii (true, false, true, false,
           false, true, true, false)), (String ((Ascii (false, false, false,
           false, false, true, false, false)), (String ((Ascii (true, false,
           true, true, false, true, false, false)), EmptyString)))))))))))))
      (app sp
        (match assoc reg private_ranges with
         | Some _ -> show_bool (is_private reg i)
         | None ->
           s2b (String ((Ascii (true, false, true, true, false, true, false,
             false)), EmptyString)))))

(** val ord_of : string -> cbor_ordering option **)

let ord_of s =
  if eqb s (String ((Ascii (false, false, true, true, false, false, true,
       false)), (String ((Ascii (true, false, true, false, false, true, true,
       false)), (String ((Ascii (false, false, false, true, true, true, true,
       false)), (String ((Ascii (true, false, false, true, false, true, true,
       false)), (String ((Ascii (true, true, false, false, false, true, true,
       false)), (String ((Ascii (true, true, true, true, false, true, true,
       false)), (String ((Ascii (true, true, true, false, false, true, true,
       false)), (String ((Ascii (false, true, false, false, true, true, true,
       false)), (String ((Ascii (true, false, false, false, false, true,
       true, false)), (String ((Ascii (false, false, false, false, true,
       true, true, false)), (String ((Ascii (false, false, false, true,
       false, true, true, false)), (String ((Ascii (true, false, false, true,
       false, true, true, false)), (String ((Ascii (true, true, false, false,
       false, true, true, false)), EmptyString))))))))))))))))))))))))))
  then Some Lexicographic
  else if eqb s (String ((Ascii (false, false, true, true, false, false,
            true, false)), (String ((Ascii (true, false, true, false, false,
            true, true, false)), (String ((Ascii (false, true, true, true,
            false, true, true, false)), (String ((Ascii (true, true, true,
            false, false, true, true, false)), (String ((Ascii (false, false,
            true, false, true, true, true, false)), (String ((Ascii (false,
            false, false, true, false, true, true, false)), (String ((Ascii
            (false, true, true, false, false, false, true, false)), (String
            ((Ascii (true, false, false, true, false, true, true, false)),
            (String ((Ascii (false, true, false, false, true, true, true,
            false)), (String ((Ascii (true, true, false, false, true, true,
            true, false)), (String ((Ascii (false, false, true, false, true,
            true, true, false)), (String ((Ascii (false, false, true, true,
            false, false, true, false)), (String ((Ascii (true, false, true,
            false, false, true, true, false)), (String ((Ascii (false, false,
            false, true, true, true, true, false)), (String ((Ascii (true,
            false, false, true, false, true, true, false)), (String ((Ascii
            (true, true, false, false, false, true, true, false)), (String
            ((Ascii (true, true, true, true, false, true, true, false)),
            (String ((Ascii (true, true, true, false, false, true, true,
            false)), (String ((Ascii (false, true, false, false, true, true,
            true, false)), (String ((Ascii (true, false, false, false, false,
            true, true, false)), (String ((Ascii (false, false, false, false,
            true, true, true, false)), (String ((Ascii (false, false, false,
            true, false, true, true, false)), (String ((Ascii (true, false,
            false, true, false, true, true, false)), (String ((Ascii (true,
            true, false, false, false, true, true, false)),
            EmptyString))))))))))))))))))))))))))))))))))))))))))))))))
       then Some LengthFirstLexicographic
       else None

(** val canon_case : cbor_ordering -> cose_key -> bytes **)

let canon_case o k =
  let k' = canonicalize o k in
  app
    (s2b (String ((Ascii (true, true, true, true, false, true, true, false)),
      (String ((Ascii (true, true, false, true, false, true, true, false)),
      (String ((Ascii (false, false, false, false, false, true, false,
      false)), EmptyString)))))))
    (app (show_value (d_key k'))
      (app sp (show_res show_hex (to_vec coq_CoseKey_to_value k'))))

(** val run_case : bytes -> bytes list -> bytes **)

let run_case op args =
  let op0 = b2s op in
  (match args with
   | [] -> badcase
   | tyb :: rest ->
     let ty = b2s tyb in
     if eqb op0 (String ((Ascii (false, false, true, false, false, true,
          true, false)), (String ((Ascii (true, false, true, false, false,
          true, true, false)), (String ((Ascii (true, true, false, false,
          false, true, true, false)), EmptyString))))))
     then (match lookup_ty ty with
           | Some t ->
             (match rest with
              | [] -> badcase
              | b :: l ->
                (match l with
                 | [] -> show_res (show_decoded ty t) (from_slice t.fromv b)
                 | _ :: _ -> badcase))
           | None -> badcase)
     else if eqb op0 (String ((Ascii (false, false, true, false, false, true,
               true, false)), (String ((Ascii (true, false, true, false,
               false, true, true, false)), (String ((Ascii (true, true,
               false, false, false, true, true, false)), (String ((Ascii
               (false, false, true, false, true, true, true, false)), (String
               ((Ascii (true, false, false, false, false, true, true,
               false)), (String ((Ascii (true, true, true, false, false,
               true, true, false)), EmptyString))))))))))))
          then (match lookup_ty ty with
                | Some t ->
                  (match rest with
                   | [] -> badcase
                   | b :: l ->
                     (match l with
                      | [] -> show_res (show_decoded ty t) (tagged_from t b)
                      | _ :: _ -> badcase))
                | None -> badcase)
          else if eqb op0 (String ((Ascii (false, true, false, false, true,
                    true, true, false)), (String ((Ascii (false, false, true,
                    false, true, true, true, false)), EmptyString))))
               then (match lookup_ty ty with
                     | Some t ->
                       (match rest with
                        | [] -> badcase
                        | b :: l ->
                          (match l with
                           | [] ->
                             roundtrip ty t (from_slice t.fromv)
                               (to_vec t.tov) b
                           | _ :: _ -> badcase))
                     | None -> badcase)
               else if eqb op0 (String ((Ascii (false, true, false, false,
                         true, true, true, false)), (String ((Ascii (false,
                         false, true, false, true, true, true, false)),
                         (String ((Ascii (false, false, true, false, true,
                         true, true, false)), (String ((Ascii (true, false,
                         false, false, false, true, true, false)), (String
                         ((Ascii (true, true, true, false, false, true, true,
                         false)), EmptyString))))))))))
                    then (match lookup_ty ty with
                          | Some t ->
                            (match rest with
                             | [] -> badcase
                             | b :: l ->
                               (match l with
                                | [] ->
                                  roundtrip ty t (tagged_from t)
                                    (tagged_to t) b
                                | _ :: _ -> badcase))
                          | None -> badcase)
                    else if eqb op0 (String ((Ascii (true, false, true,
                              false, false, true, true, false)), (String
                              ((Ascii (false, true, true, true, false, true,
                              true, false)), (String ((Ascii (true, true,
                              false, false, false, true, true, false)),
                              EmptyString))))))
                         then (match lookup_ty ty with
                               | Some t ->
                                 (match rest with
                                  | [] -> badcase
                                  | d :: l ->
                                    (match l with
                                     | [] ->
                                       (match bind (desc_arg d) (fun v ->
                                                t.odsc v) with
                                        | Ok x ->
                                          show_res show_hex (to_vec t.tov x)
                                        | _ -> badcase)
                                     | _ :: _ -> badcase))
                               | None -> badcase)
                         else if eqb op0 (String ((Ascii (true, false, true,
                                   false, false, true, true, false)), (String
                                   ((Ascii (false, true, true, true, false,
                                   true, true, false)), (String ((Ascii
                                   (true, true, false, false, false, true,
                                   true, false)), (String ((Ascii (false,
                                   false, true, false, true, true, true,
                                   false)), (String ((Ascii (true, false,
                                   false, false, false, true, true, false)),
                                   (String ((Ascii (true, true, true, false,
                                   false, true, true, false)),
                                   EmptyString))))))))))))
                              then (match lookup_ty ty with
                                    | Some t ->
                                      (match rest with
                                       | [] -> badcase
                                       | d :: l ->
                                         (match l with
                                          | [] ->
                                            (match bind (desc_arg d)
                                                     (fun v -> t.odsc v) with
                                             | Ok x ->
                                               show_res show_hex
                                                 (tagged_to t x)
                                             | _ -> badcase)
                                          | _ :: _ -> badcase))
                                    | None -> badcase)
                              else if eqb op0 (String ((Ascii (true, true,
                                        false, false, false, true, true,
                                        false)), (String ((Ascii (true,
                                        false, true, true, false, true, true,
                                        false)), (String ((Ascii (false,
                                        false, false, false, true, true,
                                        true, false)), EmptyString))))))
                                   then (match rest with
                                         | [] -> badcase
                                         | a :: l ->
                                           (match l with
                                            | [] -> badcase
                                            | b :: l0 ->
                                              (match l0 with
                                               | [] ->
                                                 (match desc_arg a with
                                                  | Ok x ->
                                                    (match desc_arg b with
                                                     | Ok y -> cmp_case ty x y
                                                     | _ -> badcase)
                                                  | _ -> badcase)
                                               | _ :: _ -> badcase)))
                                   else if eqb op0 (String ((Ascii (true,
                                             false, false, true, false, true,
                                             true, false)), (String ((Ascii
                                             (true, false, false, false,
                                             false, true, true, false)),
                                             (String ((Ascii (false, true,
                                             true, true, false, true, true,
                                             false)), (String ((Ascii (true,
                                             false, false, false, false,
                                             true, true, false)),
                                             EmptyString))))))))
                                        then (match rest with
                                              | [] -> badcase
                                              | i :: l ->
                                                (match l with
                                                 | [] ->
                                                   (match desc_arg i with
                                                    | Ok a ->
                                                      (match a with
                                                       | VInt z ->
                                                         iana_case ty z
                                                       | _ -> badcase)
                                                    | _ -> badcase)
                                                 | _ :: _ -> badcase))
                                        else if eqb op0 (String ((Ascii
                                                  (true, true, false, false,
                                                  true, true, true, false)),
                                                  (String ((Ascii (true,
                                                  false, false, true, false,
                                                  true, true, false)),
                                                  (String ((Ascii (true,
                                                  true, true, false, false,
                                                  true, true, false)),
                                                  (String ((Ascii (false,
                                                  false, true, false, false,
                                                  true, true, false)),
                                                  (String ((Ascii (true,
                                                  false, false, false, false,
                                                  true, true, false)),
                                                  (String ((Ascii (false,
                                                  false, true, false, true,
                                                  true, true, false)),
                                                  (String ((Ascii (true,
                                                  false, false, false, false,
                                                  true, true, false)),
                                                  EmptyString))))))))))))))
                                             then (match sig_ctx_of ty with
                                                   | Some c ->
                                                     (match rest with
                                                      | [] -> badcase
                                                      | body :: l ->
                                                        (match l with
                                                         | [] -> badcase
                                                         | sign :: l0 ->
                                                           (match l0 with
                                                            | [] -> badcase
                                                            | aad :: l1 ->
                                                              (match l1 with
                                                               | [] -> badcase
                                                               | pl :: l2 ->
                                                                 (match l2 with
                                                                  | [] ->
                                                                    (match 
                                                                    bind
                                                                    (desc_arg
                                                                    body)
                                                                    o_protected with
                                                                    | Ok bp ->
                                                                    (match 
                                                                    bind
                                                                    (desc_arg
                                                                    sign)
                                                                    (fun sv0 ->
                                                                    o_opt
                                                                    o_protected
                                                                    sv0) with
                                                                    | Ok so ->
                                                                    show_res
                                                                    show_hex
                                                                    (sig_structure_data
                                                                    c bp so
                                                                    aad pl)
                                                                    | _ ->
                                                                    badcase)
                                                                    | _ ->
                                                                    badcase)
                                                                  | _ :: _ ->
                                                                    badcase)))))
                                                   | None -> badcase)
                                             else if eqb op0 (String ((Ascii
                                                       (true, false, true,
                                                       true, false, true,
                                                       true, false)), (String
                                                       ((Ascii (true, false,
                                                       false, false, false,
                                                       true, true, false)),
                                                       (String ((Ascii (true,
                                                       true, false, false,
                                                       false, true, true,
                                                       false)), (String
                                                       ((Ascii (false, false,
                                                       true, false, false,
                                                       true, true, false)),
                                                       (String ((Ascii (true,
                                                       false, false, false,
                                                       false, true, true,
                                                       false)), (String
                                                       ((Ascii (false, false,
                                                       true, false, true,
                                                       true, true, false)),
                                                       (String ((Ascii (true,
                                                       false, false, false,
                                                       false, true, true,
                                                       false)),
                                                       EmptyString))))))))))))))
                                                  then (match mac_ctx_of ty with
                                                        | Some c ->
                                                          (match rest with
                                                           | [] -> badcase
                                                           | p :: l ->
                                                             (match l with
                                                              | [] -> badcase
                                                              | aad :: l0 ->
                                                                (match l0 with
                                                                 | [] ->
                                                                   badcase
                                                                 | pl :: l1 ->
                                                                   (match l1 with
                                                                    | [] ->
                                                                    (match 
                                                                    bind
                                                                    (desc_arg
                                                                    p)
                                                                    o_protected with
                                                                    | Ok pp ->
                                                                    show_res
                                                                    show_hex
                                                                    (mac_structure_data
                                                                    c pp aad
                                                                    pl)
                                                                    | _ ->
                                                                    badcase)
                                                                    | _ :: _ ->
                                                                    badcase))))
                                                        | None -> badcase)
                                                  else if eqb op0 (String
                                                            ((Ascii (true,
                                                            false, true,
                                                            false, false,
                                                            true, true,
                                                            false)), (String
                                                            ((Ascii (false,
                                                            true, true, true,
                                                            false, true,
                                                            true, false)),
                                                            (String ((Ascii
                                                            (true, true,
                                                            false, false,
                                                            false, true,
                                                            true, false)),
                                                            (String ((Ascii
                                                            (false, false,
                                                            true, false,
                                                            false, true,
                                                            true, false)),
                                                            (String ((Ascii
                                                            (true, false,
                                                            false, false,
                                                            false, true,
                                                            true, false)),
                                                            (String ((Ascii
                                                            (false, false,
                                                            true, false,
                                                            true, true, true,
                                                            false)), (String
                                                            ((Ascii (true,
                                                            false, false,
                                                            false, false,
                                                            true, true,
                                                            false)),
                                                            EmptyString))))))))))))))
                                                       then (match enc_ctx_of
                                                                    ty with
                                                             | Some c ->
                                                               (match rest with
                                                                | [] ->
                                                                  badcase
                                                                | p :: l ->
                                                                  (match l with
                                                                   | [] ->
                                                                    badcase
                                                                   | aad :: l0 ->
                                                                    (match l0 with
                                                                    | [] ->
                                                                    (match 
                                                                    bind
                                                                    (desc_arg
                                                                    p)
                                                                    o_protected with
                                                                    | Ok pp ->
                                                                    show_res
                                                                    show_hex
                                                                    (enc_structure_data
                                                                    c pp aad)
                                                                    | _ ->
                                                                    badcase)
                                                                    | _ :: _ ->
                                                                    badcase)))
                                                             | None -> badcase)
                                                       else if eqb op0
                                                                 (String
                                                                 ((Ascii
                                                                 (false,
                                                                 false,
                                                                 false, true,
                                                                 false, true,
                                                                 true,
                                                                 false)),
                                                                 (String
                                                                 ((Ascii
                                                                 (true,
                                                                 false, true,
                                                                 false,
                                                                 false, true,
                                                                 true,
                                                                 false)),
                                                                 (String
                                                                 ((Ascii
                                                                 (false,
                                                                 false, true,
                                                                 true, false,
                                                                 true, true,
                                                                 false)),
                                                                 (String
                                                                 ((Ascii
                                                                 (false,
                                                                 false,
                                                                 false,
                                                                 false, true,
                                                                 true, true,
                                                                 false)),
                                                                 (String
                                                                 ((Ascii
                                                                 (true,
                                                                 false, true,
                                                                 false,
                                                                 false, true,
                                                                 true,
                                                                 false)),
                                                                 (String
                                                                 ((Ascii
                                                                 (false,
                                                                 true, false,
                                                                 false, true,
                                                                 true, true,
                                                                 false)),
                                                                 (String
                                                                 ((Ascii
                                                                 (false,
                                                                 false,
                                                                 false, true,
                                                                 false, true,
                                                                 true,
                                                                 false)),
                                                                 (String
                                                                 ((Ascii
                                                                 (true,
                                                                 false, true,
                                                                 false,
                                                                 false, true,
                                                                 true,
                                                                 false)),
                                                                 (String
                                                                 ((Ascii
                                                                 (false,
                                                                 false,
                                                                 false, true,
                                                                 true, true,
                                                                 true,
                                                                 false)),
                                                                 EmptyString))))))))))))))))))
                                                            then (match rest with
                                                                  | [] ->
                                                                    badcase
                                                                  | raw :: args' ->
                                                                    helper_case
                                                                    ty (Err
                                                                    EUnexpected)
                                                                    true raw
                                                                    args')
                                                            else if eqb op0
                                                                    (String
                                                                    ((Ascii
                                                                    (false,
                                                                    false,
                                                                    false,
                                                                    true,
                                                                    false,
                                                                    true,
                                                                    true,
                                                                    false)),
                                                                    (String
                                                                    ((Ascii
                                                                    (true,
                                                                    false,
                                                                    true,
                                                                    false,
                                                                    false,
                                                                    true,
                                                                    true,
                                                                    false)),
                                                                    (String
                                                                    ((Ascii
                                                                    (false,
                                                                    false,
                                                                    true,
                                                                    true,
                                                                    false,
                                                                    true,
                                                                    true,
                                                                    false)),
                                                                    (String
                                                                    ((Ascii
                                                                    (false,
                                                                    false,
                                                                    false,
                                                                    false,
                                                                    true,
                                                                    true,
                                                                    true,
                                                                    false)),
                                                                    (String
                                                                    ((Ascii
                                                                    (true,
                                                                    false,
                                                                    true,
                                                                    false,
                                                                    false,
                                                                    true,
                                                                    true,
                                                                    false)),
                                                                    (String
                                                                    ((Ascii
                                                                    (false,
                                                                    true,
                                                                    false,
                                                                    false,
                                                                    true,
                                                                    true,
                                                                    true,
                                                                    false)),
                                                                    (String
                                                                    ((Ascii
                                                                    (false,
                                                                    false,
                                                                    true,
                                                                    false,
                                                                    false,
                                                                    true,
                                                                    true,
                                                                    false)),
                                                                    (String
                                                                    ((Ascii
                                                                    (true,
                                                                    false,
                                                                    true,
                                                                    false,
                                                                    false,
                                                                    true,
                                                                    true,
                                                                    false)),
                                                                    (String
                                                                    ((Ascii
                                                                    (true,
                                                                    true,
                                                                    false,
                                                                    false,
                                                                    true,
                                                                    true,
                                                                    true,
                                                                    false)),
                                                                    (String
                                                                    ((Ascii
                                                                    (true,
                                                                    true,
                                                                    false,
                                                                    false,
                                                                    false,
                                                                    true,
                                                                    true,
                                                                    false)),
                                                                    EmptyString))))))))))))))))))))
                                                                 then 
                                                                   (match rest with
                                                                    | [] ->
                                                                    badcase
                                                                    | d :: args' ->
                                                                    helper_case
                                                                    ty
                                                                    (desc_arg
                                                                    d) false
                                                                    [] args')
                                                                 else 
                                                                   if 
                                                                    eqb op0
                                                                    (String
                                                                    ((Ascii
                                                                    (false,
                                                                    true,
                                                                    false,
                                                                    false,
                                                                    false,
                                                                    true,
                                                                    true,
                                                                    false)),
                                                                    (String
                                                                    ((Ascii
                                                                    (true,
                                                                    false,
                                                                    true,
                                                                    false,
                                                                    true,
                                                                    true,
                                                                    true,
                                                                    false)),
                                                                    (String
                                                                    ((Ascii
                                                                    (true,
                                                                    false,
                                                                    false,
                                                                    true,
                                                                    false,
                                                                    true,
                                                                    true,
                                                                    false)),
                                                                    (String
                                                                    ((Ascii
                                                                    (false,
                                                                    false,
                                                                    true,
                                                                    true,
                                                                    false,
                                                                    true,
                                                                    true,
                                                                    false)),
                                                                    (String
                                                                    ((Ascii
                                                                    (false,
                                                                    false,
                                                                    true,
                                                                    false,
                                                                    false,
                                                                    true,
                                                                    true,
                                                                    false)),
                                                                    EmptyString))))))))))
                                                                   then 
                                                                    (match rest with
                                                                    | [] ->
                                                                    badcase
                                                                    | ops :: l ->
                                                                    (match l with
                                                                    | [] ->
                                                                    (match 
                                                                    desc_arg
                                                                    ops with
                                                                    | Ok v ->
                                                                    build_case
                                                                    ty v
                                                                    | _ ->
                                                                    badcase)
                                                                    | _ :: _ ->
                                                                    badcase))
                                                                   else 
                                                                    if 
                                                                    eqb op0
                                                                    (String
                                                                    ((Ascii
                                                                    (false,
                                                                    true,
                                                                    false,
                                                                    false,
                                                                    false,
                                                                    true,
                                                                    true,
                                                                    false)),
                                                                    (String
                                                                    ((Ascii
                                                                    (true,
                                                                    false,
                                                                    true,
                                                                    false,
                                                                    true,
                                                                    true,
                                                                    true,
                                                                    false)),
                                                                    (String
                                                                    ((Ascii
                                                                    (true,
                                                                    false,
                                                                    false,
                                                                    true,
                                                                    false,
                                                                    true,
                                                                    true,
                                                                    false)),
                                                                    (String
                                                                    ((Ascii
                                                                    (false,
                                                                    false,
                                                                    true,
                                                                    true,
                                                                    false,
                                                                    true,
                                                                    true,
                                                                    false)),
                                                                    (String
                                                                    ((Ascii
                                                                    (false,
                                                                    false,
                                                                    true,
                                                                    false,
                                                                    false,
                                                                    true,
                                                                    true,
                                                                    false)),
                                                                    (String
                                                                    ((Ascii
                                                                    (false,
                                                                    true,
                                                                    false,
                                                                    false,
                                                                    true,
                                                                    true,
                                                                    true,
                                                                    false)),
                                                                    (String
                                                                    ((Ascii
                                                                    (false,
                                                                    false,
                                                                    true,
                                                                    false,
                                                                    true,
                                                                    true,
                                                                    true,
                                                                    false)),
                                                                    EmptyString))))))))))))))
                                                                    then 
                                                                    (match rest with
                                                                    | [] ->
                                                                    badcase
                                                                    | ops :: l ->
                                                                    (match l with
                                                                    | [] ->
                                                                    badcase
                                                                    | tg :: args' ->
                                                                    (match 
                                                                    desc_arg
                                                                    ops with
                                                                    | Ok v ->
                                                                    buildrt_case
                                                                    ty v
                                                                    (negb
                                                                    (isnil tg))
                                                                    args'
                                                                    | _ ->
                                                                    badcase)))
                                                                    else 
                                                                    if 
                                                                    eqb op0
                                                                    (String
                                                                    ((Ascii
                                                                    (true,
                                                                    true,
                                                                    false,
                                                                    false,
                                                                    false,
                                                                    true,
                                                                    true,
                                                                    false)),
                                                                    (String
                                                                    ((Ascii
                                                                    (true,
                                                                    false,
                                                                    false,
                                                                    false,
                                                                    false,
                                                                    true,
                                                                    true,
                                                                    false)),
                                                                    (String
                                                                    ((Ascii
                                                                    (false,
                                                                    true,
                                                                    true,
                                                                    true,
                                                                    false,
                                                                    true,
                                                                    true,
                                                                    false)),
                                                                    (String
                                                                    ((Ascii
                                                                    (true,
                                                                    true,
                                                                    true,
                                                                    true,
                                                                    false,
                                                                    true,
                                                                    true,
                                                                    false)),
                                                                    (String
                                                                    ((Ascii
                                                                    (false,
                                                                    true,
                                                                    true,
                                                                    true,
                                                                    false,
                                                                    true,
                                                                    true,
                                                                    false)),
                                                                    EmptyString))))))))))
                                                                    then 
                                                                    (match 
                                                                    ord_of ty with
                                                                    | Some o ->
                                                                    (match rest with
                                                                    | [] ->
                                                                    badcase
                                                                    | d :: l ->
                                                                    (match l with
                                                                    | [] ->
                                                                    (match 
                                                                    bind
                                                                    (desc_arg
                                                                    d) o_key with
                                                                    | Ok k ->
                                                                    canon_case
                                                                    o k
                                                                    | _ ->
                                                                    badcase)
                                                                    | _ :: _ ->
                                                                    badcase))
                                                                    | None ->
                                                                    badcase)
                                                                    else 
                                                                    badcase)
