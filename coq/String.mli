open Ascii
open Byte
open Datatypes
open List

type string =
| EmptyString
| String of ascii * string

val eqb : string -> string -> bool

val length : string -> nat

val substring : nat -> nat -> string -> string

val prefix : string -> string -> bool

val string_of_list_ascii : ascii list -> string

val list_ascii_of_string : string -> ascii list

val string_of_list_byte : byte list -> string

val list_byte_of_string : string -> byte list
