open Ascii
open Byte
open Datatypes
open List

type string =
| EmptyString
| String of ascii * string

(** val eqb : string -> string -> bool **)

let rec eqb s1 s2 =
  match s1 with
  | EmptyString ->
    (match s2 with
     | EmptyString -> true
     | String (_, _) -> false)
  | String (c1, s1') ->
    (match s2 with
     | EmptyString -> false
     | String (c2, s2') -> if Ascii.eqb c1 c2 then eqb s1' s2' else false)

(** val length : string -> nat **)

let rec length = function
| EmptyString -> O
| String (_, s') -> S (length s')

(** val substring : nat -> nat -> string -> string **)

let rec substring n m s =
  match n with
  | O ->
    (match m with
     | O -> EmptyString
     | S m' ->
       (match s with
        | EmptyString -> s
        | String (c, s') -> String (c, (substring O m' s'))))
  | S n' ->
    (match s with
     | EmptyString -> s
     | String (_, s') -> substring n' m s')

(** val prefix : string -> string -> bool **)

let rec prefix s1 s2 =
  match s1 with
  | EmptyString -> true
  | String (a, s1') ->
    (match s2 with
     | EmptyString -> false
     | String (b, s2') -> if ascii_dec a b then prefix s1' s2' else false)

(** val string_of_list_ascii : ascii list -> string **)

let rec string_of_list_ascii = function
| [] -> EmptyString
| ch :: s0 -> String (ch, (string_of_list_ascii s0))

(** val list_ascii_of_string : string -> ascii list **)

let rec list_ascii_of_string = function
| EmptyString -> []
| String (ch, s0) -> ch :: (list_ascii_of_string s0)

(** val string_of_list_byte : byte list -> string **)

let string_of_list_byte s =
  string_of_list_ascii (map ascii_of_byte s)

(** val list_byte_of_string : string -> byte list **)

let list_byte_of_string s =
  map byte_of_ascii (list_ascii_of_string s)
