"""Per-property case families and direct oracles.  Each `cases_Cxx(rng, tier)` returns a list of
case dicts (see gen.case).  Oracle hints understood by `judge`:
  expect        exact observation the implementation must print (independent Python spec)
  expect_re     regex the implementation's observation must match
  no_panic      the implementation must not print panic / crash / hang
  strict_err    compare error kinds between implementation and model (default: class only)
  impl_only     do not run / compare the model
  group, view   cases of one group must agree on view(observation) (encoding independence)
"""
import re, itertools
from cbor import *
from gen import *
import pyspec
import combos

Q = lambda tier, q, t: q if tier == "quick" else t

# ================================================================= judge
def judge(c, impl, model):
    """returns a list of (kind, message); empty = fine.  kind in oracle|corr"""
    bad = []
    if impl == "badcase baddesc:unregistered":
        # the case describes an in-memory value holding a registry entry the crate does not have (any more):
        # not applicable under the current tables
        return bad
    if c.get("no_panic", True) and not c.get("may_panic"):
        if impl == "panic" or impl.startswith("crash") or impl == "hang":
            if not (model == "panic" and c.get("panic_ok_if_model")):
                bad.append(("oracle", "implementation %s" % impl))
    if impl.startswith("badcase") or impl == "badline":
        bad.append(("harness", "harness rejected the case: %s" % impl))
    if "expect" in c and impl != c["expect"]:
        if not (c.get("expect_norm") and norm(impl) == norm(c["expect"])):
            bad.append(("oracle", "expected %s" % c["expect"][:300]))
    if "expect_re" in c and not re.fullmatch(c["expect_re"], impl):
        bad.append(("oracle", "expected to match /%s/" % c["expect_re"]))
    if "check" in c:
        m = c["check"](c, impl)
        if m: bad.append(("oracle", m))
    if model is not None and not c.get("impl_only"):
        a, b = (impl, model) if c.get("strict_err") else (norm(impl), norm(model))
        if a != b:
            bad.append(("corr", "model says %s" % model[:300]))
    return bad

ERR_RE = re.compile(r"err:\w+")
def norm(s): return ERR_RE.sub("err", s)

def tstr(s): return "=" + s


# ================================================================= width sweeps (shared)
WIDTHS = (0, 1, 2, 15, 16, 17, 23, 24, 25, 31, 32, 33, 63, 64, 65, 127, 128, 129, 255, 256, 257, 1000)
def width_sweep(which=None):
    """every variable-LENGTH position of every structure, filled with n well-formed entries for n around every
    head-width boundary and every plausible fan-out cap (the counterpart of the depth sweeps): the CDDL puts no
    upper bound on any of them -> list of (position name, type, bytes, n)"""
    out = []
    sig = lambda i: A(B(b""), M((I(4), B(b"k%d" % i))), B(b"s%d" % i))
    rec = lambda i: A(B(b""), M((I(4), B(b"k%d" % i))), B(b"c%d" % i))
    key = lambda i: M((I(1), I(4)), (I(2), B(b"k%d" % i)))
    for n in WIDTHS:
        sigs = A(*[sig(i) for i in range(n)]); recs = A(*[rec(i) for i in range(n)])
        out.append(("signatures", "CoseSign", enc(A(B(b""), M(), NULL, sigs)), n))
        out.append(("mac-recipients", "CoseMac", enc(A(B(b""), M(), NULL, B(b"t"), recs)), n))
        out.append(("encrypt-recipients", "CoseEncrypt", enc(A(B(b""), M(), NULL, recs)), n))
        out.append(("recipient-recipients", "CoseRecipient", enc(A(B(b""), M(), NULL, recs)), n))
        out.append(("nested-recipient-recipients", "CoseEncrypt", enc(A(B(b""), M(), NULL, A(A(B(b""), M(), NULL, recs)))), n))
        out.append(("countersignatures", "Header", enc(M((I(7), sigs))), n))
        out.append(("countersignatures-in-sign1", "CoseSign1", enc(A(B(b""), M((I(7), sigs)), NULL, B(b""))), n))
        out.append(("header-extras", "Header", enc(M(*[(I(100 + i), I(i)) for i in range(n)])), n))
        out.append(("header-text-extras", "Header", enc(M(*[(T("x%d" % i), I(i)) for i in range(n)])), n))
        out.append(("protected-extras", "CoseMac0", enc(A(B(enc(M(*[(I(100 + i), I(i)) for i in range(n)]))) if n else B(b""), M(), NULL, B(b""))), n))
        out.append(("crit", "Header", enc(M((I(2), A(*[T("c%d" % i) for i in range(n)])), *[(T("c%d" % i), I(i)) for i in range(n)])), n))
        out.append(("key-ops", "CoseKey", enc(M((I(1), I(4)), (I(4), A(*[T("op%d" % i) for i in range(n)])))), n))
        out.append(("key-params", "CoseKey", enc(M((I(1), I(4)), *[(I(-1 - i), B(b"p"))for i in range(n)])), n))
        out.append(("keyset", "CoseKeySet", enc(A(*[key(i) for i in range(n)])), n))
        out.append(("claims", "ClaimsSet", enc(M(*[(T("n%d" % i), I(i)) for i in range(n)])), n))
        out.append(("claims-private", "ClaimsSet", enc(M(*[(I(-70000 - i), I(i)) for i in range(n)])), n))
        out.append(("payload", "CoseSign1", enc(A(B(b""), M(), B(b"p" * n), B(b"s" * n))), n))
        out.append(("kid", "Header", enc(M((I(4), B(b"k" * n)))), n))
        out.append(("party-identity", "CoseKdfContext", enc(A(I(1), A(B(b"i" * n), B(b"n" * n), B(b"o" * n)), A(NULL, NULL, NULL), A(I(128), B(b"")), *[B(b"x") for _ in range(min(n, 3))])), n))
        out.append(("extra-value-array", "Header", enc(M((I(100), A(*[I(i) for i in range(n)])))), n))
        out.append(("extra-value-text", "ClaimsSet", enc(M((I(1), T("i" * n)))), n))
    return [x for x in out if which is None or x[1] in which]


# ================================================================= stored-value kinds (shared)
VALUE_KINDS = [("nil", NULL), ("false", FALSE), ("true", TRUE), ("zero", I(0)), ("neg", I(-1)), ("u64max", I(2**64 - 1)), ("empty-bstr", B(b"")),
               ("empty-text", T("")), ("empty-array", A()), ("empty-map", M()), ("tag", G(1, I(0))), ("float", ("f", 0x3ff8000000000000)),
               ("array-of-nil", A(NULL)), ("map-of-nil", M((NULL, NULL))), ("tagged-nil", G(24, NULL))]
def value_kind_cases(which):
    """every uninterpreted (extra) entry position x every KIND of stored value x label class x carrier: the entry is
    kept, in place, with exactly that value (nil, false, empty containers ... are values like any other), and the
    encoding is a fixed point -> list of case dicts"""
    out = []
    def emit(ty, b, v, fam):
        out.append(case("dec", ty, b, fam="extra-by-value-kind:" + fam, expect_re=r"ok .*" + re.escape(pyspec.show(v)) + r".*"))
        out.append(case("rt", ty, b, fam="extra-by-value-kind-rt:" + fam, expect="ok %s T T" % b.hex()))
    for kn, v in VALUE_KINDS:
        if "Header" in which:
            for lab in (I(0), I(8), I(100), I(-1), I(-65537), T(""), T("x")):
                for others in ((), ((I(1), I(-7)),), ((I(4), B(b"kid")),)):
                    for pos in range(2 if others else 1):
                        ents = list(others); tail = [(lab, v), (I(200), I(7))]
                        h = M(*(ents + (tail if pos == 0 else tail[::-1])))
                        emit("Header", enc(h), v, "header:" + kn)
                        emit("CoseSign1", enc(A(B(enc(h)), M(), NULL, B(b"s"))), v, "protected:" + kn)
                        emit("CoseEncrypt", enc(A(B(b""), M(), NULL, A(A(B(b""), h, NULL)))), v, "recipient-unprotected:" + kn)
                        emit("CoseSign", enc(A(B(b""), M(), NULL, A(A(B(b""), h, B(b"s"))))), v, "signer-unprotected:" + kn)
                        emit("CoseMac0", enc(A(B(b""), M((I(7), A(B(b""), h, B(b"c")))), NULL, B(b"t"))), v, "countersigner-unprotected:" + kn)
        if "CoseKey" in which:
            for kty in (I(1), I(2), I(4), T("custom")):
                for lab in (I(-1), I(-2), I(-4), I(-7), I(6), I(100), I(-65537), T("x")):
                    k = M((I(1), kty), (lab, v), (I(-100), I(7)))
                    emit("CoseKey", enc(k), v, "key:" + kn)
                    emit("CoseKeySet", enc(A(M((I(1), I(4))), k)), v, "keyset-member:" + kn)
        if "ClaimsSet" in which:
            names = [I(x) for x in CLAIM_REG if not 1 <= x <= 7][:3] + [I(-65537), I(-70000), T(""), T("x")]
            for name in names:
                for others in ((), ((I(1), T("iss")),)):
                    c = M(*(list(others) + [(name, v), (T("zz"), I(7))]))
                    emit("ClaimsSet", enc(c), v, "claim:" + kn)
    return out


def wrapped_body_cases(rng):
    """an accepted encoding WRAPPED in something (byte string, nested byte string, tag 24 / 55799 over either, one-element
    array, map value, indefinite-length byte string) is not that structure: nothing looks through a wrapper"""
    out = []
    fixed = {"Header": b"\xa1\x01\x26", "CoseKey": b"\xa1\x01\x04", "CoseKeySet": b"\x81\xa1\x01\x04", "ClaimsSet": b"\xa1\x01\x61\x69",
             "CoseKdfContext": b"\x84\x01\x83\xf6\xf6\xf6\x83\xf6\xf6\xf6\x82\x00\x40", "CoseSignature": b"\x83\x40\xa0\x41\x73",
             "CoseRecipient": b"\x83\x40\xa0\xf6"}
    bodies = [(ty, enc(gen_msg(rng, ty, 1))) for ty in TAGGED_TYPES] + sorted(fixed.items())
    for ty, body in bodies:
        bs = enc(B(body))
        for name, w in (("bstr", bs), ("bstr-bstr", enc(B(bs))), ("tag24-bstr", head(6, 24) + bs), ("tag55799", head(6, 55799) + body),
                        ("tag55799-bstr", head(6, 55799) + bs), ("array-1", b"\x81" + body), ("array-2", b"\x82" + body + body), ("map-value", b"\xa1\x00" + body),
                        ("map-key", b"\xa1" + body + b"\x00"), ("indef-bstr", b"\x5f" + bs + b"\xff"), ("indef-array", b"\x9f" + body + b"\xff"),
                        ("text-hex", enc(T(body.hex()))), ("tag24-array", head(6, 24) + b"\x81" + body)):
            if name == "map-value" and ty in ("Header", "ClaimsSet"):      # that IS a map of this type, with one extra entry
                out.append(case("dec", ty, w, fam="wrapped-body:" + name, expect_re=r"ok .*")); continue
            out.append(case("dec", ty, w, fam="wrapped-body:" + name, expect_re=r"err:\w+"))
            if ty in TAGGED_TYPES:
                out.append(case("dectag", ty, w, fam="wrapped-body:" + name, expect_re=r"err:\w+"))
                out.append(case("dectag", ty, head(6, MSG_TAG[ty]) + w, fam="wrapped-body-tagged:" + name, expect_re=r"err:\w+"))
    return out


# ================================================================= byte-string length boundaries (shared)
BOUNDARY_LENS = [0, 1, 22, 23, 24, 25, 254, 255, 256, 257, 65534, 65535, 65536, 65537]
def boundary_prots():
    """protected headers (built, and decoded with retained bytes) whose encoding is EXACTLY each boundary length"""
    out = []
    for L in BOUNDARY_LENS:
        if L == 0:
            out.append((L, d_protected(None, D_EMPTY_HEADER), b"")); continue
        for k in range(max(0, L - 8), L):
            wire = enc(M((I(4), B(b"k" * k))))
            if len(wire) == L and k > 0:
                out.append((L, d_protected(None, d_header(kid=b"k" * k)), wire))
                out.append((L, d_protected(wire, D_EMPTY_HEADER), wire))
                break
        else:
            if L == 1: out.append((L, d_protected(b"\xa0", D_EMPTY_HEADER), b"\xa0"))
    return out


# ================================================================= built-header field populations (shared)
def field_population_headers():
    """all 2^7 populations of the typed header fields (IV together with Partial IV included: the builders refuse
    that, the public fields do not) -> (description, encoded header map)"""
    out = []
    fields = [("alg", d_reg(1, -7)), ("crit", (d_reg(1, 1),)), ("ctype", d_reg(1, 60)), ("kid", b"kid"), ("iv", b"iv"), ("piv", b"piv"),
              ("csigs", (d_signature(d_protected(None, D_EMPTY_HEADER), D_EMPTY_HEADER, b"cs"),))]
    for mask in range(1, 128):
        kw = {n: v for i, (n, v) in enumerate(fields) if mask >> i & 1}
        for rest in ((), ((I(100), I(1)),)):
            h = d_header(rest=rest, **kw)
            out.append((h, enc(pyspec.header_map(h))))
    return out

def field_population_cases(which):
    out = []
    aad, pl, k = b"external aad", b"the payload", b"kk"
    for h, pb in field_population_headers():
        if "sign" in which:
            ops = [A(T("protected"), h), A(T("payload"), B(pl)), A(T("create_signature"), B(aad), A(I(0), B(k)))]
            want = k + pyspec.sig_structure("CoseSign1", pb, None, aad, pl)
            out.append(case("build", "CoseSign1", enc(('a', ops)), fam="field-population:create_signature",
                            check=lambda c, o, w=want: None if ("h" + w.hex()) in o else "signature created over other bytes than the Sig_structure of this header"))
            sg = d_signature(d_protected(None, h), D_EMPTY_HEADER, b"")
            ops = [A(T("protected"), h), A(T("payload"), B(pl)), A(T("add_created_signature"), sg, B(aad), A(I(0), B(k)))]
            want = k + pyspec.sig_structure("CoseSignature", pb, pb, aad, pl)
            out.append(case("build", "CoseSign", enc(('a', ops)), fam="field-population:add_created_signature",
                            check=lambda c, o, w=want: None if ("h" + w.hex()) in o else "signature created over other bytes than the Sig_structure of this header"))
        if "mac" in which:
            for bt in ("CoseMac0", "CoseMac"):
                ops = [A(T("protected"), h), A(T("payload"), B(pl)), A(T("create_tag"), B(aad), A(I(0), B(k)))]
                want = k + pyspec.mac_structure(bt, pb, aad, pl)
                out.append(case("build", bt, enc(('a', ops)), fam="field-population:create_tag",
                                check=lambda c, o, w=want: None if ("h" + w.hex()) in o else "tag created over other bytes than the MAC_structure of this header"))
        if "enc" in which:
            for bt in ("CoseEncrypt0", "CoseEncrypt"):
                ops = [A(T("protected"), h), A(T("create_ciphertext"), B(pl), B(aad), A(I(0), B(k)))]
                want = k + bytes([len(pl) % 256]) + pl + pyspec.enc_structure(bt, pb, aad)
                out.append(case("build", bt, enc(('a', ops)), fam="field-population:create_ciphertext",
                                check=lambda c, o, w=want: None if ("h" + w.hex()) in o else "ciphertext created with other additional data than the Enc_structure of this header"))
            ops = [A(T("protected"), h), A(T("create_ciphertext"), T("EncRecipient"), B(pl), B(aad), A(I(0), B(k)))]
            want = k + bytes([len(pl) % 256]) + pl + pyspec.enc_structure("EncRecipient", pb, aad)
            out.append(case("build", "CoseRecipient", enc(('a', ops)), fam="field-population:recipient.create_ciphertext",
                            check=lambda c, o, w=want: None if ("h" + w.hex()) in o else "ciphertext created with other additional data than the Enc_structure of this header"))
    return out


# ================================================================= depth sweeps (shared)
DEPTHS = (6, 7, 8, 9, 15, 16, 17, 31, 32, 33, 61, 62, 63, 64, 65, 66, 127, 128, 129, 200, 250, 252, 253, 254, 255, 256)
def depth_sweep_cases(which):
    """legal but deep nesting in every free-form (uninterpreted) position of every type, alone and inside each carrier,
    around every plausible smaller recursion limit (ciborium's own is 256; the proved model decides each depth)"""
    out = []
    for d in DEPTHS:
        deep = b"\x81" * d + b"\x00"
        deepm = b"".join(b"\xa1\x00" for _ in range(d)) + b"\x00"
        deept = b"\xc1" * d + b"\x00"
        for inner in (deep, deepm, deept):
            key = b"\xa2\x01\x04\x20" + inner
            for ty, b in (("Header", b"\xa1\x18\x63" + inner), ("CoseKey", key), ("CoseKeySet", b"\x81" + key), ("CoseKeySet", b"\x82\xa1\x01\x04" + key),
                          ("ClaimsSet", b"\xa1\x18\x63" + inner), ("ClaimsSet", b"\xa1\x61\x78" + inner), ("CoseKey", b"\xa2\x01\x04\x61\x78" + inner),
                          ("CoseSign1", b"\x84\x40\xa1\x18\x63" + inner + b"\xf6\x40"), ("CoseEncrypt0", b"\x83" + enc(B(b"\xa1\x18\x63" + inner)) + b"\xa0\xf6"),
                          ("CoseMac", b"\x85\x40\xa0\xf6\x40\x81\x83\x40\xa1\x18\x63" + inner + b"\xf6"),
                          ("CoseSign", b"\x84\x40\xa0\xf6\x81\x83\x40\xa1\x18\x63" + inner + b"\x40"),
                          ("Header", b"\xa1\x07\x83\x40\xa1\x18\x63" + inner + b"\x40")):
                if ty not in which: continue
                out.append(case("dec", ty, b, fam="depth-sweep:" + ty, key=(ty, b)))
                out.append(case("rt", ty, b, fam="depth-sweep-rt:" + ty, key=(ty, b)))
                if ty in TAGGED_TYPES:
                    out.append(case("dectag", ty, head(6, MSG_TAG[ty]) + b, fam="depth-sweep-tagged:" + ty))
    return out


def protected_nesting_cases(api=False, ops=("dec",)):
    """protected headers nested through counter-signatures 0..20 deep (the crate bounds this nesting; the proved model
    carries the bound), in every form of the counter-signature parameter, non-empty at every level, reached through every
    type and entry point: the bound is the same wherever the chain starts"""
    out = []
    for d in range(0, 21):
        for form in ("single", "list", "mixed", "list2"):
            for inner in (b"\xa0", b"\xa1\x01\x26"):
                h = nested_header(d, form, inner)
                carriers = [("Header", h), ("ProtectedHeader", enc(B(h))), ("CoseSignature", b"\x83" + enc(B(h)) + b"\xa0\x40"), ("CoseSignature", b"\x83\x40" + h + b"\x40"),
                            ("CoseSign1", b"\x84" + enc(B(h)) + b"\xa0\xf6\x40"), ("CoseSign1", b"\x84\x40" + h + b"\xf6\x40"),
                            ("CoseEncrypt0", b"\x83" + enc(B(h)) + b"\xa0\xf6"), ("CoseRecipient", b"\x83" + enc(B(h)) + b"\xa0\xf6"),
                            ("CoseMac", b"\x85\x40\xa0\xf6\x40\x81\x83" + enc(B(h)) + b"\xa0\xf6"), ("CoseSign", b"\x84\x40\xa0\xf6\x81\x83" + enc(B(h)) + b"\xa0\x40"),
                            ("CoseEncrypt", b"\x84\x40\xa0\xf6\x81\x84\x40\xa0\xf6\x81\x83" + enc(B(h)) + b"\xa0\xf6")]
                for ty, b in carriers:
                    for op in ops:
                        out.append(case(op, ty, b, fam="base" if (api and op == "dec") else "protected-nesting-sweep:%s:%s" % (op, ty), key=(ty, b)))
                    if api:
                        out.append(case("decval", ty, b, fam="api-decode", key=(ty, b), impl_only=True))
                    if "dec" in ops and ty in TAGGED_TYPES:
                        out.append(case("dectag", ty, head(6, MSG_TAG[ty]) + b, fam="protected-nesting-sweep:dectag:" + ty))
    return out


def edited_twins(cases):
    """for every helper call on a DECODED message with a stated expectation: the same call after the parsed view of the
    protected headers was edited without clearing the retained bytes (harness helpers `edited.*`) must hand over the same
    bytes - what was received stays authoritative whatever its spelling (zero-length included)"""
    out = []
    for c in cases:
        l = c["line"]
        if l.startswith("helperhex ") and not l.startswith("helperhex countersig") and not l.startswith("helperhex edited.") and "expect" in c:
            t = dict(c); t["line"] = "helperhex edited." + l[len("helperhex "):]; t["fam"] = c["fam"] + ":edited"; t["impl_only"] = True
            out.append(t)
    return out


def typed_field_kind_cases(which):
    """every TYPED field of headers, keys, claims sets and KDF contexts x (a) every kind of value, (b) a valid value of
    the field WRAPPED in something (one-element array, pair, tag 1 / 24, map value, encoded in a byte string, text):
    a field accepts exactly its own type, never a container or spelling that merely holds one"""
    out = []
    def wraps(v):
        return [("valid", v), ("array-1", A(v)), ("array-2", A(v, v)), ("tag1", G(1, v)), ("tag24", G(24, v)), ("tag24-bstr", G(24, B(enc(v)))),
                ("map-value", M((I(0), v))), ("bstr-encoded", B(enc(v))), ("array-array", A(A(v)))]
    def emit(ty, b, fam):
        out.append(case("dec", ty, b, fam="typed-field-kind:" + fam, strict_err=True))
    if "Header" in which:
        fields = [(1, I(-7)), (1, T("a")), (2, A(I(1))), (3, I(60)), (3, T("a/b")), (4, B(b"k")), (5, B(b"i")), (6, B(b"p")), (7, A(B(b""), M(), B(b"s")))]
        for lab, v in fields:
            for wn, w in wraps(v) + VALUE_KINDS:
                h = M((I(lab), w))
                emit("Header", enc(h), "header-%d:%s" % (lab, wn))
                emit("CoseSign1", enc(A(B(enc(h)), M(), NULL, B(b""))), "protected-%d:%s" % (lab, wn))
                emit("CoseMac", enc(A(B(b""), M(), NULL, B(b""), A(A(B(b""), h, NULL)))), "recipient-%d:%s" % (lab, wn))
    if "CoseKey" in which:
        fields = [(1, I(4)), (1, T("a")), (2, B(b"k")), (3, I(-7)), (3, T("a")), (4, A(I(1))), (4, A(T("a"))), (5, B(b"i"))]
        for lab, v in fields:
            for wn, w in wraps(v) + VALUE_KINDS:
                k = M((I(lab), w)) if lab == 1 else M((I(1), I(4)), (I(lab), w))
                emit("CoseKey", enc(k), "key-%d:%s" % (lab, wn))
                emit("CoseKeySet", enc(A(k)), "keyset-%d:%s" % (lab, wn))
    if "ClaimsSet" in which:
        fields = [(1, T("i")), (2, T("s")), (3, T("a")), (4, I(10)), (4, ("f", 0x3ff8000000000000)), (5, I(10)), (6, I(10)), (7, B(b"c"))]
        for lab, v in fields:
            for wn, w in wraps(v) + VALUE_KINDS:
                emit("ClaimsSet", enc(M((I(lab), w))), "claim-%d:%s" % (lab, wn))
                emit("ClaimsSet", enc(M((I(1 if lab != 1 else 2), T("o")), (I(lab), w))), "claim-among-%d:%s" % (lab, wn))
    if "CoseKdfContext" in which:
        base = [I(1), A(NULL, NULL, NULL), A(NULL, NULL, NULL), A(I(128), B(b""))]
        comps = [(0, 0, I(1)), (0, 0, T("a")), (1, 0, B(b"id")), (1, 1, B(b"n")), (1, 1, I(5)), (1, 2, B(b"o")), (2, 0, B(b"id")), (3, 0, I(128)), (3, 1, B(b"\xa1\x01\x26")), (3, 1, B(b""))]
        for slot, sub, v in comps:
            for wn, w in wraps(v) + VALUE_KINDS:
                items = list(base)
                if slot == 0: items[0] = w
                else:
                    inner = list(items[slot][1]); inner[sub] = w; items[slot] = ('a', inner)
                emit("CoseKdfContext", enc(('a', items)), "kdf-%d.%d:%s" % (slot, sub, wn))
                if slot in (1, 2):
                    pi = [NULL, NULL, NULL]; pi[sub] = w
                    emit("PartyInfo", enc(('a', pi)), "party-%d:%s" % (sub, wn))
                if slot == 3:
                    sp = [I(128), B(b"")]; sp[sub] = w
                    emit("SuppPubInfo", enc(('a', sp)), "supp-%d:%s" % (sub, wn))
    return out

def bignum_toplevel_cases():
    """integers in bignum spelling (tag 2 / 3 over a byte string), which the CBOR layer folds into plain integers, at the
    TOP LEVEL of every integer-or-text type, through the byte and the Value entry points, alone, with a suffix and cut short"""
    out = []
    tys = ("Label", "RegP:Algorithm", "RegP:CwtClaimName", "RegP:HeaderParameter", "RegP:EllipticCurve", "Reg:KeyType", "Reg:CoapContentFormat",
           "Reg:KeyOperation", "Reg:HeaderParameter", "Value")
    for n in (0, 1, 4, 5, 23, 24, 60, 255, 256, 65536, 2**32, 2**63 - 1, 2**63, 2**64 - 1, -1, -7, -8, -25, -257, -65537, -2**63, -2**63 - 1, -2**64):
        for e in int_encodings(n):
            for ty in tys:
                out.append(case("dec", ty, e, fam="base", key=(ty, e), strict_err=True))
                out.append(case("decval", ty, e, fam="api-decode", key=(ty, e), impl_only=True))
                out.append(case("dec", ty, e + b"\x00", fam="suffix", key=(ty, e), strict_err=True))
                if len(e) > 1: out.append(case("dec", ty, e[:-1], fam="prefix", key=(ty, e)))
    return out


def override_cases(which):
    """the protected header is set TWICE before the creating call (a later setter overrides an earlier one, an empty
    header included): what is handed over is the structure of the header in force, for every ordered pair of header classes"""
    out = []
    aad, pl, k = b"external aad", b"the payload", b"kk"
    hs = [D_EMPTY_HEADER, d_header(alg=d_reg(1, -7)), d_header(kid=b"kid"), d_header(alg=d_reg(1, 5), kid=b"k2", rest=((I(100), I(1)),)), d_header(rest=((T("x"), I(1)),))]
    def pbytes(h): return b"" if pyspec.header_empty(h) else enc(pyspec.header_map(h))
    for h1 in hs:
        for h2 in hs:
            if h1 == h2: continue
            pb = pbytes(h2)
            pre = [A(T("protected"), h1), A(T("protected"), h2)]
            if "sign" in which:
                want = k + pyspec.sig_structure("CoseSign1", pb, None, aad, pl)
                for opn in ("create_signature", "try_create_signature"):
                    out.append(case("build", "CoseSign1", enc(('a', pre + [A(T("payload"), B(pl)), A(T(opn), B(aad), A(I(0), B(k)))])), fam="protected-override:" + opn,
                                    check=lambda c, o, w=want: None if ("h" + w.hex()) in o else "signature created over other bytes than the Sig_structure of the header in force"))
                sg = d_signature(d_protected(None, h2), D_EMPTY_HEADER, b"")
                want = k + pyspec.sig_structure("CoseSignature", pb, pb, aad, pl)
                out.append(case("build", "CoseSign", enc(('a', pre + [A(T("payload"), B(pl)), A(T("add_created_signature"), sg, B(aad), A(I(0), B(k)))])), fam="protected-override:add_created_signature",
                                check=lambda c, o, w=want: None if ("h" + w.hex()) in o else "signature created over other bytes than the Sig_structure of the header in force"))
            if "mac" in which:
                for bt in ("CoseMac0", "CoseMac"):
                    want = k + pyspec.mac_structure(bt, pb, aad, pl)
                    for opn in ("create_tag", "try_create_tag"):
                        out.append(case("build", bt, enc(('a', pre + [A(T("payload"), B(pl)), A(T(opn), B(aad), A(I(0), B(k)))])), fam="protected-override:" + opn,
                                        check=lambda c, o, w=want: None if ("h" + w.hex()) in o else "tag created over other bytes than the MAC_structure of the header in force"))
                    # re-set between two creations: the second creation sees the new header
                    ops = [A(T("protected"), h1), A(T("payload"), B(pl)), A(T("create_tag"), B(aad), A(I(0), B(k))), A(T("protected"), h2), A(T("create_tag"), B(aad), A(I(0), B(k)))]
                    out.append(case("build", bt, enc(('a', ops)), fam="protected-override:create-reset-create",
                                    check=lambda c, o, w=want: None if ("h" + w.hex()) in o else "second tag created over other bytes than the MAC_structure of the header in force"))
            if "enc" in which:
                for bt in ("CoseEncrypt0", "CoseEncrypt"):
                    want = k + bytes([len(pl) % 256]) + pl + pyspec.enc_structure(bt, pb, aad)
                    for opn in ("create_ciphertext", "try_create_ciphertext"):
                        out.append(case("build", bt, enc(('a', pre + [A(T(opn), B(pl), B(aad), A(I(0), B(k)))])), fam="protected-override:" + opn,
                                        check=lambda c, o, w=want: None if ("h" + w.hex()) in o else "ciphertext created with other additional data than the Enc_structure of the header in force"))
                want = k + bytes([len(pl) % 256]) + pl + pyspec.enc_structure("EncRecipient", pb, aad)
                out.append(case("build", "CoseRecipient", enc(('a', pre + [A(T("create_ciphertext"), T("EncRecipient"), B(pl), B(aad), A(I(0), B(k)))])), fam="protected-override:recipient.create_ciphertext",
                                check=lambda c, o, w=want: None if ("h" + w.hex()) in o else "ciphertext created with other additional data than the Enc_structure of the header in force"))
    return out


def extreme_pair_cases():
    """two identifiers in ONE map with at least one at a 64-bit extreme (every ordered pair, repeats included), for
    every map type: ordering, duplicate detection and classification involve arithmetic on both"""
    out = []
    ext = [-2**63, -2**63 + 1, 2**63 - 1, 2**63 - 2, -1, -2, -260, -65536, -65537, -70000, 0, 1, 8, 100]
    for a in ext:
        for b in ext:
            if abs(a) < 2**62 and abs(b) < 2**62: continue
            out.append(case("dec", "ClaimsSet", enc(M((I(a), I(1)), (I(b), I(2)))), fam="extreme-pair:claims"))
            out.append(case("dec", "ClaimsSet", enc(M((I(a), I(1)), (T("x"), I(0)), (I(b), I(2)))), fam="extreme-pair:claims"))
            out.append(case("dec", "Header", enc(M((I(a), I(1)), (I(b), I(2)))), fam="extreme-pair:header"))
            out.append(case("dec", "Header", enc(M((I(1), I(a)), (I(b), I(2)))), fam="extreme-pair:header-alg"))
            out.append(case("dec", "CoseKey", enc(M((I(1), I(4)), (I(a), I(1)), (I(b), I(2)))), fam="extreme-pair:key"))
            out.append(case("dec", "CoseKey", enc(M((I(1), I(4)), (I(3), I(a)), (I(b), I(2)))), fam="extreme-pair:key-alg"))
            out.append(case("rt", "ClaimsSet", enc(M((I(a), I(1)), (I(b), I(2)))), fam="extreme-pair:claims-rt"))
            out.append(case("rt", "CoseKey", enc(M((I(1), I(4)), (I(a), I(1)), (I(b), I(2)))), fam="extreme-pair:key-rt"))
            out.append(case("cmp", "regp:Algorithm", enc(A(I(0), I(a))), enc(A(I(0), I(b))), fam="extreme-pair:cmp"))
            out.append(case("cmp", "regp:CwtClaimName", enc(A(I(0), I(a))), enc(A(I(0), I(b))), fam="extreme-pair:cmp"))
            out.append(case("cmp", "label", enc(I(a)), enc(I(b)), fam="extreme-pair:cmp"))
            out.append(case("cmp", "canonical", enc(I(a)), enc(I(b)), fam="extreme-pair:cmp"))
    return out


# ================================================================= text content sweep (shared)
TRICKY_TEXTS = ["\u00e9:", "\u00e9:x", ":\u00e9", "a:\u00e9", "\u00e9/\u00e9", "\u00e9/b", "a/\u00e9", " \u00e9", "\u00e9 ", "\u00a0a/b", "a/b\u00a0", "\U0001d11e:", "\u4e2d:\u6587", ":", "::", "a:", ":a", "a:b:c",
                "%", "\u00e9;x=1", "a/b;\u00e9=1", "\u2028", "\ufeff", "\ufeffa/b", "\x00:", "\x00", "\u00e9" * 8, "\U0001f600:", "\U0001f600/\U0001f600", "a/\U0001f600", "\u0301a/b", "a\u0301:b",
                "coap://h", "\u00e9cole:salle-3", "urn:x", "1:", "+:", "a+b:c", "A:", "\u00c9:", "\u0131:", "\u212a/k", "a/b/c", "/", "a/", "/b", "a b/c", "a/b c", "\ta/b", "a/b\n"]
def text_sweep_cases(which):
    """every TEXT-typed position (string claims, text content type, text algorithm / key type / key operation / critical
    label, text labels and claim names) x strings mixing multi-byte characters (2, 3 and 4 bytes, combining marks, BOM,
    separators) with the ASCII characters a validator might look for (: / ; = + % space), first / middle / last"""
    out = []
    for t in TRICKY_TEXTS:
        v = enc(T(t))
        if "ClaimsSet" in which:
            for lab in (1, 2, 3):
                out.append(case("dec", "ClaimsSet", enc(M((I(lab), T(t)))), fam="text-sweep:claim-%d" % lab)); out.append(case("rt", "ClaimsSet", enc(M((I(lab), T(t)))), fam="text-sweep-rt:claim-%d" % lab))
            out.append(case("dec", "ClaimsSet", enc(M((T(t), I(1)))), fam="text-sweep:claim-name")); out.append(case("dec", "ClaimsSet", enc(M((I(8), T(t)))), fam="text-sweep:claim-extra"))
        if "Header" in which:
            for fam, b in (("ctype", M((I(3), T(t)))), ("alg", M((I(1), T(t)))), ("crit", M((I(2), A(T(t))), (T(t), I(0)))), ("label", M((T(t), I(1)))), ("extra", M((I(99), T(t))))):
                out.append(case("dec", "Header", enc(b), fam="text-sweep:header-" + fam)); out.append(case("rt", "Header", enc(b), fam="text-sweep-rt:header-" + fam))
            out.append(case("dec", "CoseSign1", enc(A(B(enc(M((I(3), T(t))))), M(), NULL, B(b""))), fam="text-sweep:protected-ctype"))
        if "CoseKey" in which:
            for fam, b in (("kty", M((I(1), T(t)))), ("alg", M((I(1), I(4)), (I(3), T(t)))), ("op", M((I(1), I(4)), (I(4), A(T(t))))), ("label", M((I(1), I(4)), (T(t), I(1))))):
                out.append(case("dec", "CoseKey", enc(b), fam="text-sweep:key-" + fam)); out.append(case("rt", "CoseKey", enc(b), fam="text-sweep-rt:key-" + fam))
        if "CoseKdfContext" in which:
            out.append(case("dec", "CoseKdfContext", b"\x84" + v + b"\x83\xf6\xf6\xf6\x83\xf6\xf6\xf6\x82\x00\x40", fam="text-sweep:kdf-alg"))
    return out

def cross_bucket_cases(rng):
    """every ordered pair of typed header fields with one in the protected and one in the unprotected bucket of every
    carrier (the same field in both included; IV here and Partial IV there included): each map is judged on its own"""
    out = []
    fv = [(1, I(-7)), (2, A(I(4))), (3, I(60)), (4, B(b"k")), (5, B(b"iv")), (6, B(b"piv")), (7, A(B(b""), M(), B(b"s")))]
    for pl, pv in fv:
        for ul, uv in fv:
            p = B(enc(M((I(pl), pv)))); u = M((I(ul), uv))
            sig = A(p, u, B(b"s")); rec = A(p, u, NULL)
            for ty, v in (("CoseSign1", A(p, u, NULL, B(b"s"))), ("CoseMac0", A(p, u, NULL, B(b"t"))), ("CoseEncrypt0", A(p, u, NULL)), ("CoseEncrypt0", A(p, u, B(b"ct"))),
                          ("CoseSign", A(p, u, NULL, A())), ("CoseMac", A(p, u, NULL, B(b"t"), A())), ("CoseEncrypt", A(p, u, NULL, A())), ("CoseSignature", sig), ("CoseRecipient", rec),
                          ("CoseSign", A(B(b""), M(), NULL, A(sig))), ("CoseEncrypt", A(B(b""), M(), NULL, A(rec))), ("CoseMac", A(B(b""), M(), NULL, B(b""), A(A(B(b""), M(), NULL, A(rec))))),
                          ("Header", M((I(7), sig)))):
                out.append(case("dec", ty, enc(v), fam="cross-bucket:" + ty, expect_re=r"ok .*"))
    return out


def registered_extra_cases(which):
    """every REGISTERED label that the crate stores as an uninterpreted extra (header parameters other than 1..7 and the
    header-algorithm parameters; the per-key-type key parameters; the non-core claims) x value shapes a type-aware
    normaliser might touch (a lone byte string, a one-element array of byte strings, two elements, nested, text, int, nil):
    kept as they are, re-encoded as they are"""
    import tables as _tb
    out = []
    shapes = [B(b"cert"), A(B(b"cert")), A(B(b"c1"), B(b"c2")), A(A(B(b"c"))), A(I(1)), A(T("u")), T("https://x"), I(-8), NULL, A(), M(), M((I(1), B(b"c"))), A(I(-8), B(b"h")), G(24, B(b"c"))]
    def emit(ty, b, fam):
        out.append(case("rt", ty, b, fam="registered-extra-rt:" + fam, expect="ok %s T T" % b.hex()))
        out.append(case("dec", ty, b, fam="registered-extra:" + fam, expect_re=r"ok .*"))
    if "Header" in which:
        labs = sorted(set(v for r in ("HeaderParameter", "HeaderAlgorithmParameter") for v in _tb.REG[r] if not 1 <= v <= 7))
        for lab in labs:
            for v in shapes:
                h = M((I(lab), v))
                emit("Header", enc(h), "header")
                emit("CoseSign1", enc(A(B(b""), h, NULL, B(b"s"))), "unprotected")
                emit("CoseEncrypt", enc(A(B(b""), M(), NULL, A(A(B(b""), h, NULL)))), "recipient-unprotected")
    if "CoseKey" in which:
        labs = sorted(set(v for r in ("OkpKeyParameter", "Ec2KeyParameter", "RsaKeyParameter", "SymmetricKeyParameter", "HssLmsKeyParameter", "WalnutDsaKeyParameter") for v in _tb.REG[r]))
        for kty in sorted(_tb.REG["KeyType"]):
            if kty == 0: continue
            for lab in labs[:8] if kty != 3 else labs:
                for v in shapes[:8]:
                    emit("CoseKey", enc(M((I(1), I(kty)), (I(lab), v))), "key")
    if "ClaimsSet" in which:
        for lab in sorted(v for v in _tb.REG["CwtClaimName"] if not 1 <= v <= 7):
            for v in shapes:
                emit("ClaimsSet", enc(M((I(lab), v))), "claims")
    return out


def rebuilt_cases(which):
    """a received message whose OWN protected header is then serialized afresh (retained bytes cleared, harness helpers
    `rebuilt.*`): counter-signatures nested inside it still contribute their own retained bytes, whatever their spelling.
    The outer header is sent in the form the crate itself emits, so the bytes handed over equal those of the message as
    received"""
    out = []
    for inner in (b"", b"\xa0", b"\xbf\xff", b"\xb8\x00", b"\xa1\x18\x01\x38\x06", b"\xa2\x04\x41\x6b\x01\x26"):
        for form in ("single", "list"):
            cs = A(B(inner), M(), B(b"cs"))
            outer = enc(M((I(1), I(-7)), (I(7), cs if form == "single" else A(cs, A(B(b""), M(), B(b"c2"))))))
            for pre in ("", "rebuilt."):
                if "sign" in which:
                    m = enc(A(B(outer), M(), B(b"pl"), B(b"sg")))
                    out.append(case("helperhex", pre + "sign1.tbs_data", m, b"aad", fam="rebuilt-twins:sign1", impl_only=True, expect="ok " + pyspec.sig_structure("CoseSign1", outer, None, b"aad", b"pl").hex()))
                if "mac" in which:
                    m = enc(A(B(outer), M(), B(b"pl"), B(b"tg")))
                    out.append(case("helperhex", pre + "mac0.verify_tag", m, b"aad", fam="rebuilt-twins:mac0", impl_only=True, expect="ok 7467 " + pyspec.mac_structure("CoseMac0", outer, b"aad", b"pl").hex()))
                if "enc" in which:
                    m = enc(A(B(outer), M(), B(b"ct")))
                    out.append(case("helperhex", pre + "encrypt0.decrypt", m, b"aad", fam="rebuilt-twins:encrypt0", impl_only=True, expect="ok 6374 " + pyspec.enc_structure("CoseEncrypt0", outer, b"aad").hex()))
                    m = enc(A(B(outer), M(), B(b"ct")))
                    out.append(case("helperhex", pre + "recipient.decrypt", m, tstr("EncRecipient"), b"aad", fam="rebuilt-twins:recipient", impl_only=True, expect="ok 6374 " + pyspec.enc_structure("EncRecipient", outer, b"aad").hex()))
    return out

# ================================================================= C16
def label_palette():
    ints = sorted(set(x for x in LATTICE if -2**63 <= x < 2**63) | {2, 10, 22, 25, 100, 1000, -2, -10, -23, -26, -100, -1000,
                  2**31, -2**31, 2**62, -2**62})
    texts = ["", "a", "b", "aa", "ab", "b" * 2, "é", "z", "a" * 23, "a" * 24, "b" * 23, "a" * 255, "a" * 256, "b" * 255,
             "中", "a" * 22 + "é", "\x00", "\x7f", "A", "B", "AA", "Aa", "aA", "É", "abc", "ABC", "a ", " a"]
    return [I(i) for i in ints] + [T(t) for t in texts]

def lab_enc(v): return enc(v)
def cmp3(a, b): return "Lt" if a < b else ("Gt" if a > b else "Eq")

def cases_C16(rng, tier):
    pal = label_palette()
    out = []
    pairs = list(itertools.product(pal, pal))
    if tier == "quick":
        pairs = rng.sample(pairs, 2500) + [(a, a) for a in pal]
    for a, b in pairs:
        ea, eb = lab_enc(a), lab_enc(b)
        eq = "T" if a == b else "F"
        out.append(case("cmp", "label", enc(a), enc(b), fam="label", expect="ok %s %s" % (cmp3(ea, eb), eq)))
        out.append(case("cmp", "canonical", enc(a), enc(b), fam="canonical",
                        expect="ok %s %s" % (cmp3((len(ea), ea), (len(eb), eb)), eq)))
    # registry variants: Assigned / PrivateUse / Text
    def regvals(regs, privs):
        return [A(I(1), I(x)) for x in regs] + [A(I(0), I(x)) for x in privs] + [A(I(2), T(t)) for t in ["", "a", "b", "aa", "é", "A", "B", "aA", "Aa", "AA", "É", "text/plain", "text/PLAIN", "Text/Plain", "abc", "ABC", "a ", " a"]]
    for kind, vals in (("regp:Algorithm", regvals(ALG_REG + [-6, -5, 24, 25, 26, -25, -26, -27], ALG_PRIV)),
                       ("regp:CwtClaimName", regvals(CLAIM_REG + [1, 7], CLAIM_PRIV)),
                       ("reg:KeyType", regvals(KTY_REG + [0], [])),
                       ("reg:CoapContentFormat", regvals(CF_REG, [])),
                       ("reg:KeyOperation", regvals(KOP_REG, []))):
        ps = list(itertools.product(vals, vals))
        if tier == "quick" and len(ps) > 500: ps = rng.sample(ps, 500)
        for a, b in ps:
            wa, wb = a[1][1], b[1][1]
            ea, eb = enc(wa), enc(wb)
            eq = "T" if a == b else "F"
            out.append(case("cmp", kind, enc(a), enc(b), fam=kind, expect="ok %s %s" % (cmp3(ea, eb), eq)))
    # triples: transitivity is implied by agreement with the encoded order; sample anyway via pairs above
    # "usable for sorting map keys into either standard order": the crate's own map-key sorter on label sets that
    # straddle sign and encoded-length classes must produce exactly the order of the encodings
    def chk_sorted(order):
        def f(c, o):
            m = re.fullmatch(r"ok (\S+) ok ([0-9a-f]+)", o)
            if not m: return "sorted key does not encode: %s" % o[:100]
            ks = [enc(k) for k, _ in dec_all(bytes.fromhex(m.group(2)))[1]]
            keyf = (lambda e: e) if order == "Lexicographic" else (lambda e: (len(e), e))
            for a, b in zip(ks, ks[1:]):
                if not keyf(a) < keyf(b): return "encoded keys not strictly ascending (%s before %s)" % (a.hex(), b.hex())
            return None
        return f
    sp = [x for x in pal if x not in (I(0), I(1), I(2), I(3), I(4), I(5))]      # label 0: known finding of C20; 1..5: key fields
    sets = [[a, b] for a, b in itertools.permutations([I(x) for x in (-1, -24, -25, -256, -257, -65536, -65537, -2**32 - 1, -2**63, 6, 23, 24, 255, 256, 65535, 65536, 2**32, 2**63 - 1)]
                                                       + [T(""), T("a"), T("aa"), T("a" * 23), T("a" * 24), T("a" * 255), T("a" * 256)], 2)]
    for k in (3, 4, 6):
        sets += [rng.sample(sp, k) for _ in range(Q(tier, 150, 1500))]
    if tier == "quick": sets = rng.sample(sets, 500)
    for ls in sets:
        d = gen_desc_key(rng, extra_labels=list(ls))
        for order in ("Lexicographic", "LengthFirstLexicographic"):
            out.append(case("canon", order, enc(d), fam="sort-map-keys", check=chk_sorted(order)))
    out += [c for c in extreme_pair_cases() if c["line"].startswith("cmp ")]
    # labels as produced by the BUILDERS: the range guards of the label-taking calls decide which variant a label gets
    # (a private-use variant holding a registered value would compare Equal to, yet differ from, the registered variant)
    import tables as _tb
    for l in sorted(set([-65538, -65537, -65536, -65535, -1000, -261, -260, -259, -258, -257, -256, -255, -1, 0, 1, 7, 8, 40, 100, 2**63 - 1, -2**63] + list(_tb.REG["CwtClaimName"]))):
        out.append(case("build", "ClaimsSet", enc(A(A(T("private_claim"), I(l), I(0)))), fam="builder-label:private_claim", may_panic=True))
        out.append(case("build", "ClaimsSet", enc(A(A(T("claim"), I(l), I(0)))), fam="builder-label:claim", may_panic=True))
        out.append(case("build", "Header", enc(A(A(T("value"), I(l), I(0)))), fam="builder-label:value", may_panic=True))
        out.append(case("build", "CoseKey", enc(A(A(T("param"), I(l), I(0)))), fam="builder-label:param", may_panic=True))
    return out

# ================================================================= C17
def cases_C17(rng, tier):
    out = []
    regs = ["HeaderParameter", "HeaderAlgorithmParameter", "Algorithm", "KeyParameter", "OkpKeyParameter",
            "Ec2KeyParameter", "RsaKeyParameter", "SymmetricKeyParameter", "HssLmsKeyParameter",
            "WalnutDsaKeyParameter", "KeyType", "EllipticCurve", "KeyOperation", "CborTag", "CoapContentFormat",
            "CwtClaimName"]
    win = list(range(-700, 700)) + list(range(-65540, -65530)) + list(range(9990, 10010)) + list(range(11040, 11070)) \
        + list(range(11535, 11550)) + [2**63 - 1, -2**63, 65535, 65536, -65535, 2**31, -2**31, 55799]
    if tier != "quick":
        win = sorted(set(win) | set(range(-70000, 70000)))
    for r in regs:
        for i in win:
            out.append(case("iana", r, enc(I(i)), fam="iana:" + r))
    # label decoding at label-typed positions
    sample = [i for i in win if -66000 < i < 12000] if tier == "quick" else win
    if tier == "quick": sample = rng.sample(sample, 600) + [-65537, -65536, -65535, 0, 1, 7, 8, 2**63 - 1, -2**63]
    for i in sample:
        for ty in ("RegP:Algorithm", "RegP:CwtClaimName", "RegP:HeaderParameter", "RegP:EllipticCurve", "Reg:KeyType",
                   "Reg:CoapContentFormat", "Reg:KeyOperation", "Reg:HeaderParameter"):
            out.append(case("dec", ty, enc(I(i)), fam="label:" + ty, strict_err=True))
    for ty in ("RegP:Algorithm", "Reg:KeyType"):
        for t in TEXT_LABELS:
            out.append(case("dec", ty, enc(T(t)), fam="text:" + ty, expect_re=r"ok \[i0x2,t[0-9a-f]*\]"))
    # every label-typed position x every integer of a window covering all assigned values of the small registries
    # (the proved model decides; registered -> name, private -> kept, else rejected; 0 and negatives included)
    positions = (("alg", "Header", lambda x: head(5, 1) + b"\x01" + x), ("content-format", "Header", lambda x: head(5, 1) + b"\x03" + x),
                 ("crit", "Header", lambda x: head(5, 1) + b"\x02\x81" + x), ("crit2", "Header", lambda x: head(5, 1) + b"\x02\x82\x01" + x),
                 ("protected-alg", "CoseSign1", lambda x: b"\x84" + enc(B(head(5, 1) + b"\x01" + x)) + b"\xa0\xf6\x40"),
                 ("protected-ct", "CoseMac0", lambda x: b"\x84" + enc(B(head(5, 1) + b"\x03" + x)) + b"\xa0\xf6\x40"),
                 ("kty", "CoseKey", lambda x: head(5, 1) + b"\x01" + x), ("key-op", "CoseKey", lambda x: head(5, 2) + b"\x01\x01\x04\x81" + x),
                 ("key-alg", "CoseKey", lambda x: head(5, 2) + b"\x01\x01\x03" + x), ("claim-name", "ClaimsSet", lambda x: head(5, 1) + x + b"\x00"),
                 ("kdf-alg", "CoseKdfContext", lambda x: b"\x84" + x + b"\x83\xf6\xf6\xf6\x83\xf6\xf6\xf6\x82\x00\x40"),
                 ("kty-in-set", "CoseKeySet", lambda x: b"\x83\xa1\x01\x04\xa1\x01" + x + b"\xa1\x01\x01"),
                 ("key-op-in-set", "CoseKeySet", lambda x: b"\x82\xa1\x01\x04\xa2\x01\x01\x04\x81" + x),
                 ("key-alg-in-set", "CoseKeySet", lambda x: b"\x81\xa2\x01\x01\x03" + x),
                 ("recipient-alg", "CoseMac", lambda x: b"\x85\x40\xa0\xf6\x40\x81\x83\x40\xa1\x01" + x + b"\xf6"),
                 ("signer-crit", "CoseSign", lambda x: b"\x84\x40\xa0\xf6\x81\x83\x40\xa1\x02\x81" + x + b"\x40"),
                 ("countersig-ct", "Header", lambda x: b"\xa1\x07\x83\x40\xa1\x03" + x + b"\x40"),
                 # the same positions with SIBLING fields decoded before / after them (classification of an entry never
                 # depends on what else the map holds, or on the order of its entries)
                 ("crit-after-alg", "Header", lambda x: b"\xa2\x01\x26\x02\x81" + x), ("crit-before-alg", "Header", lambda x: b"\xa2\x02\x81" + x + b"\x01\x26"),
                 ("crit-after-text-alg", "Header", lambda x: b"\xa2\x01\x61\x61\x02\x81" + x), ("crit-after-private-alg", "Header", lambda x: b"\xa2\x01\x3a\x00\x01\x00\x00\x02\x81" + x),
                 ("crit2-after-alg-kid", "Header", lambda x: b"\xa3\x01\x26\x04\x41\x6b\x02\x82\x04" + x), ("alg-after-crit", "Header", lambda x: b"\xa2\x02\x81\x04\x01" + x),
                 ("ct-after-alg", "Header", lambda x: b"\xa2\x01\x26\x03" + x), ("alg-after-ct", "Header", lambda x: b"\xa2\x03\x00\x01" + x),
                 ("protected-crit-after-alg", "CoseSign1", lambda x: b"\x84" + enc(B(b"\xa2\x01\x26\x02\x81" + x)) + b"\xa0\xf6\x40"),
                 ("recipient-crit-after-alg", "CoseEncrypt", lambda x: b"\x84\x40\xa0\xf6\x81\x83\x40\xa2\x01\x26\x02\x81" + x + b"\xf6"),
                 ("key-op-after-alg", "CoseKey", lambda x: b"\xa3\x01\x01\x03\x26\x04\x81" + x), ("key-alg-after-ops", "CoseKey", lambda x: b"\xa3\x01\x01\x04\x81\x01\x03" + x),
                 ("kty-after-alg", "CoseKey", lambda x: b"\xa2\x03\x26\x01" + x), ("kty-after-params", "CoseKey", lambda x: b"\xa3\x20\x01\x21\x40\x01" + x),
                 ("key-alg-by-kty-okp", "CoseKey", lambda x: b"\xa3\x01\x01\x20\x06\x03" + x), ("key-alg-by-kty-ec2", "CoseKey", lambda x: b"\xa3\x01\x02\x20\x01\x03" + x),
                 ("claim-name-after-iss", "ClaimsSet", lambda x: b"\xa2\x01\x61\x69" + x + b"\x00"), ("claim-name-before-iss", "ClaimsSet", lambda x: b"\xa2" + x + b"\x00\x01\x61\x69"),
                 ("claim-name-after-private", "ClaimsSet", lambda x: b"\xa2\x3a\x00\x01\x00\x00\x00" + x + b"\x00"),
                 # label positions inside LIST elements at index 0 / 1 / 2 (one bad element is an error of the whole list)
                 ("countersig-list0-alg", "Header", lambda x: b"\xa1\x07\x82\x83\x40\xa1\x01" + x + b"\x40\x83\x40\xa0\x40"),
                 ("countersig-list1-alg", "Header", lambda x: b"\xa1\x07\x82\x83\x40\xa0\x40\x83\x40\xa1\x01" + x + b"\x40"),
                 ("countersig-list2-prot-alg", "Header", lambda x: b"\xa1\x07\x83\x83\x40\xa0\x40\x83\x40\xa0\x40\x83" + enc(B(b"\xa1\x01" + x)) + b"\xa0\x40"),
                 ("countersig-list1-crit", "Header", lambda x: b"\xa1\x07\x82\x83\x40\xa0\x40\x83\x40\xa1\x02\x81" + x + b"\x40"),
                 ("countersig-list1-ct", "CoseSign1", lambda x: b"\x84\x40\xa1\x07\x82\x83\x40\xa0\x40\x83\x40\xa1\x03" + x + b"\x40\xf6\x40"),
                 ("countersig-single-prot-alg", "Header", lambda x: b"\xa1\x07\x83" + enc(B(b"\xa1\x01" + x)) + b"\xa0\x40"),
                 ("signer1-alg", "CoseSign", lambda x: b"\x84\x40\xa0\xf6\x82\x83\x40\xa0\x40\x83\x40\xa1\x01" + x + b"\x40"),
                 ("recipient1-alg", "CoseEncrypt", lambda x: b"\x84\x40\xa0\xf6\x82\x83\x40\xa0\xf6\x83\x40\xa1\x01" + x + b"\xf6"),
                 ("recipient1-prot-alg", "CoseMac", lambda x: b"\x85\x40\xa0\xf6\x40\x82\x83\x40\xa0\xf6\x83" + enc(B(b"\xa1\x01" + x)) + b"\xa0\xf6"),
                 ("nested-recipient1-alg", "CoseRecipient", lambda x: b"\x84\x40\xa0\xf6\x82\x83\x40\xa0\xf6\x83\x40\xa1\x01" + x + b"\xf6"),
                 ("keyset-key2-kty", "CoseKeySet", lambda x: b"\x83\xa1\x01\x04\xa1\x01\x04\xa1\x01" + x),
                 ("key-op1", "CoseKey", lambda x: b"\xa2\x01\x04\x04\x82\x01" + x), ("crit1-of-3", "Header", lambda x: b"\xa1\x02\x83\x01" + x + b"\x04"),
                 # the same positions in every SHAPE of the carrier (optional parts present / absent / empty)
                 ("recipient4-alg", "CoseRecipient", lambda x: b"\x84\x40\xa1\x01" + x + b"\xf6\x81\x83\x40\xa0\xf6"),
                 ("recipient4-prot-alg", "CoseRecipient", lambda x: b"\x84" + enc(B(b"\xa1\x01" + x)) + b"\xa0\x41\x63\x81\x83\x40\xa0\xf6"),
                 ("recipient4-empty-list-alg", "CoseRecipient", lambda x: b"\x84\x40\xa1\x01" + x + b"\xf6\x80"),
                 ("recipient3-ciphertext-alg", "CoseRecipient", lambda x: b"\x83\x40\xa1\x01" + x + b"\x41\x63"),
                 ("encrypt-recipient4-alg", "CoseEncrypt", lambda x: b"\x84\x40\xa0\xf6\x81\x84\x40\xa1\x01" + x + b"\x40\x81\x83\x40\xa0\xf6"),
                 ("mac-recipient4-alg", "CoseMac", lambda x: b"\x85\x40\xa0\xf6\x40\x81\x84\x40\xa1\x01" + x + b"\xf6\x82\x83\x40\xa0\xf6\x83\x40\xa0\xf6"),
                 ("sign1-alg-with-payload", "CoseSign1", lambda x: b"\x84" + enc(B(b"\xa1\x01" + x)) + b"\xa0\x41\x70\x41\x73"),
                 ("sign1-unprot-alg-detached", "CoseSign1", lambda x: b"\x84\x40\xa1\x01" + x + b"\xf6\x40"),
                 ("mac0-alg-with-payload", "CoseMac0", lambda x: b"\x84\x40\xa1\x01" + x + b"\x41\x70\x41\x74"),
                 ("encrypt0-alg-with-ciphertext", "CoseEncrypt0", lambda x: b"\x83" + enc(B(b"\xa1\x01" + x)) + b"\xa0\x41\x63"),
                 ("sign-alg-with-signers", "CoseSign", lambda x: b"\x84" + enc(B(b"\xa1\x01" + x)) + b"\xa0\x41\x70\x82\x83\x40\xa0\x40\x83\x40\xa0\x40"),
                 ("sign-alg-no-signers", "CoseSign", lambda x: b"\x84\x40\xa1\x01" + x + b"\xf6\x80"),
                 ("encrypt-alg-no-recipients", "CoseEncrypt", lambda x: b"\x84\x40\xa1\x01" + x + b"\xf6\x80"),
                 ("key-op-after-all-registered", "CoseKey", lambda x: b"\xa2\x01\x04\x04\x8b\x01\x02\x03\x04\x05\x06\x07\x08\x09\x0a" + x),
                 ("key-op-among-texts", "CoseKey", lambda x: b"\xa2\x01\x04\x04\x8c" + b"".join(b"\x62\x6f" + bytes([0x61 + i]) for i in range(11)) + x),
                 ("crit-after-many", "Header", lambda x: b"\xa1\x02\x8c\x01\x02\x03\x04\x05\x06\x07" + b"".join(b"\x61" + bytes([0x61 + i]) for i in range(4)) + x),
                 ("supp-pub-prot-alg", "SuppPubInfo", lambda x: b"\x82\x18\x80" + enc(B(b"\xa1\x01" + x))),
                 ("supp-pub-prot-crit", "SuppPubInfo", lambda x: b"\x83\x18\x80" + enc(B(b"\xa1\x02\x81" + x)) + b"\x41\x6f"),
                 ("supp-pub-prot-ct", "SuppPubInfo", lambda x: b"\x82\x18\x80" + enc(B(b"\xa1\x03" + x))),
                 ("kdf-supp-pub-prot-alg", "CoseKdfContext", lambda x: b"\x84\x01\x83\xf6\xf6\xf6\x83\xf6\xf6\xf6\x82\x18\x80" + enc(B(b"\xa1\x01" + x))),
                 ("kdf-supp-pub-prot-crit", "CoseKdfContext", lambda x: b"\x85\x01\x83\xf6\xf6\xf6\x83\xf6\xf6\xf6\x82\x18\x80" + enc(B(b"\xa1\x02\x81" + x)) + b"\x41\x70"),
                 ("kdf-supp-pub-countersig-alg", "CoseKdfContext", lambda x: b"\x84\x01\x83\xf6\xf6\xf6\x83\xf6\xf6\xf6\x82\x18\x80" + enc(B(b"\xa1\x07\x83\x40\xa1\x01" + x + b"\x40"))))
    pwin = list(range(-300, 300)) + [-65535, -65536, -65537, 10000, 11060, 11542, 11543, 65535]
    if tier != "quick": pwin = sorted(set(pwin) | set(range(-1000, 12000)))
    import tables as _tb
    alias = set()
    for reg in _tb.REG.values():
        for v in reg:
            for k in (8, 16, 31, 32, 33, 63, 64):
                for a in (v + 2**k, v - 2**k, -v + 2**k if v else None, (v % 2**k) if v < 0 else None):
                    if a is not None and -2**64 <= a < 2**64 and a != v: alias.add(a)
    alias = sorted(alias)
    if tier == "quick": alias = rng.sample(alias, 400) + [2**32 - 7, 2**32 - 3, 2**32 - 65535, 2**32 - 260, 2**16 - 7, 2**8 - 7, 2**32 + 1, 2**32 + 4, 2**16 + 1, 256 + 1]
    for name, ty, wrap in positions:
        for v in pwin:
            out.append(case("dec", ty, wrap(enc(I(v))), fam="position:" + name))
        # integers that become a registered value when truncated to 8 / 16 / 31 / 32 / 33 / 63 / 64 bits or sign-flipped
        for v in (alias if name in ("alg", "kty", "claim-name", "crit", "content-format", "key-op", "key-alg", "kdf-alg", "protected-alg") else alias[::7]):
            out.append(case("dec", ty, wrap(enc(I(v))), fam="position-alias:" + name, strict_err=True))
        import tables as _tbl
        names = ["", "a", "alg", "OKP", "EC", "EC2", "RSA", "oct", "Symmetric", "ES256", "HS256", "A128GCM", "direct", "kid", "crit", "sign", "verify",
                 "encrypt", "iss", "sub", "exp", "cnf", "Reserved", "0", "1", "-7", "text/plain", "application/cbor"]
        for reg in _tbl.REG.values():
            names += list(reg.values())[:4]
        for t in sorted(set(names + [x.lower() for x in names] + [x.upper() for x in names])):
            if name in ("content-format", "protected-ct", "countersig-ct", "ct-after-alg", "countersig-list1-ct", "supp-pub-prot-ct"):
                out.append(case("dec", ty, wrap(enc(T(t))), fam="position-text:" + name))     # content types have their own text rules
            elif ty == "CoseKdfContext":
                out.append(case("dec", ty, wrap(enc(T(t))), fam="position-text:" + name, expect_re=r"ok enc=[0-9a-f]*" + enc(T(t)).hex() + r"[0-9a-f]*"))
            else:
                out.append(case("dec", ty, wrap(enc(T(t))), fam="position-text:" + name, expect_re=r"ok .*t" + t.encode().hex() + r"[,\]].*"))
    # label-typed map-key positions x the KIND of the value stored under the label: classification of the label
    # never depends on what the entry holds (nil, empty, false ... are values like any other)
    vkinds = [("nil", b"\xf6"), ("undefined", b"\xf7"), ("false", b"\xf4"), ("true", b"\xf5"), ("zero", b"\x00"), ("neg", b"\x20"), ("empty-bstr", b"\x40"),
              ("empty-text", b"\x60"), ("empty-array", b"\x80"), ("empty-map", b"\xa0"), ("tag", b"\xc1\x00"), ("float", b"\xf9\x3e\x00"), ("simple", b"\xe0")]
    kpos = (("claim-name", "ClaimsSet", lambda x, v: head(5, 1) + x + v), ("claim-name-among", "ClaimsSet", lambda x, v: head(5, 3) + b"\x01\x61\x69" + x + v + b"\x02\x61\x73"),
            ("header-label", "Header", lambda x, v: head(5, 1) + x + v), ("key-label", "CoseKey", lambda x, v: head(5, 2) + b"\x01\x04" + x + v),
            ("protected-label", "CoseSign1", lambda x, v: b"\x84" + enc(B(head(5, 1) + x + v)) + b"\xa0\xf6\x40"))
    kwin = sorted(set(list(range(-12, 45)) + [-65535, -65536, -65537, -70000, 100, 256, 10000, 12345, 2**63 - 1, -2**63] + CLAIM_REG + CLAIM_PRIV))
    for name, ty, wrap in kpos:
        for kn, v in vkinds:
            for i in kwin:
                out.append(case("dec", ty, wrap(enc(I(i)), v), fam="position-by-value-kind:%s:%s" % (name, kn), strict_err=True))
            for t in ("", "a", "iss", "alg"):
                out.append(case("dec", ty, wrap(enc(T(t)), v), fam="position-by-value-kind:%s:%s" % (name, kn), strict_err=True))
    return out

# ================================================================= C15
def int_encodings(n):
    """all head widths + bignum spellings of one integer"""
    mt, mag = (0, n) if n >= 0 else (1, -1 - n)
    encs = [head(mt, mag, w) for w in widths_for(mag)] if mag < 2**64 else []
    body = mag.to_bytes(max(1, (mag.bit_length() + 7) // 8), "big")
    for pad in (0, 1):
        bb = b"\x00" * pad + body
        if len(bb) <= 16: encs.append(head(6, 2 if n >= 0 else 3) + head(2, len(bb)) + bb)
    return encs

def cases_C15(rng, tier):
    out = []
    ints = list(LATTICE) + [rng.randrange(-2**64, 2**64) for _ in range(Q(tier, 40, 2000))] \
        + [rng.randrange(-2**63 - 1000, -2**63 + 1000) for _ in range(Q(tier, 10, 300))] \
        + [rng.randrange(2**63 - 1000, 2**63 + 1000) for _ in range(Q(tier, 10, 300))]
    for n in ints:
        in64 = -2**63 <= n < 2**63
        inu64 = 0 <= n < 2**64
        for e in int_encodings(n):
            # bare label
            out.append(case("dec", "Label", e, fam="label", strict_err=True,
                            expect=("ok i%s" % pyspec.show(I(n))[1:]) if in64 else "err:Range"))
            # extras keep the value whatever its magnitude; as header label / key label / claim name
            out.append(case("dec", "Header", enc(M((I(-70000), ("raw", e)))), fam="extra-value", strict_err=True,
                            expect="ok [N,[],N,h,h,h,[],[[i-0x11170,%s]]]" % pyspec.show(I(n))))
            out.append(case("dec", "Header", head(5, 1) + e + b"\x00", fam="header-label", strict_err=True,
                            **({} if in64 else {"expect": "err:Range"})))
            out.append(case("dec", "CoseKey", head(5, 2) + b"\x01\x01" + e + b"\x00", fam="key-label", strict_err=True,
                            **({} if in64 else {"expect": "err:Range"})))
            out.append(case("dec", "ClaimsSet", head(5, 1) + e + b"\x00", fam="claim-name", strict_err=True,
                            **({} if in64 else {"expect": "err:Range"})))
            for pos, ty, wrap in (("alg", "Header", lambda x: head(5, 1) + b"\x01" + x),
                                  ("content-format", "Header", lambda x: head(5, 1) + b"\x03" + x),
                                  ("crit", "Header", lambda x: head(5, 1) + b"\x02\x81" + x),
                                  ("kty", "CoseKey", lambda x: head(5, 1) + b"\x01" + x),
                                  ("key-op", "CoseKey", lambda x: head(5, 2) + b"\x01\x01\x04\x81" + x),
                                  ("key-alg", "CoseKey", lambda x: head(5, 2) + b"\x01\x01\x03" + x)):
                out.append(case("dec", ty, wrap(e), fam=pos, strict_err=True, **({} if in64 else {"expect": "err:Range"})))
            for k in (4, 5, 6):
                out.append(case("dec", "ClaimsSet", head(5, 1) + bytes([k]) + e, fam="timestamp", strict_err=True,
                                **({} if in64 else {"expect": "err:Range"})))
            out.append(case("dec", "PartyInfo", b"\x83\xf6" + e + b"\xf6", fam="nonce", strict_err=True,
                            expect=("ok [N,%s,N]" % pyspec.show(I(n))) if in64 else "err:Range"))
            out.append(case("dec", "SuppPubInfo", b"\x82" + e + b"\x40", fam="key-data-length", strict_err=True,
                            expect=("ok [%s,[h,[N,[],N,h,h,h,[],[]]],N]" % pyspec.show(I(n))) if inu64 else "err:Range"))
            out.append(case("dec", "Value", e, fam="value", expect="ok " + pyspec.show(I(n))))
        if in64:
            out.append(case("enc", "Label", enc(I(n)), fam="label-encode", expect="ok " + enc(I(n)).hex()))
    # uninterpreted positions in COMBINATION with what surrounds them: the value of an extra parameter is kept
    # whatever its magnitude, for every key type / algorithm / neighbouring label (a type-specific check on a
    # "known" extra label, e.g. the curve of an EC2 key, must not narrow it)
    huge = [2**63, 2**64 - 1, -2**63 - 1, -2**64, 2**63 - 1, -2**63]
    for kty in (1, 2, 3, 4, 5, 6, T("custom")):
        for lab in (-1, -2, -3, -4, -5, -6, 6, 1000, T("x")):
            for n in huge:
                kv = (I(lab) if isinstance(lab, int) else lab, I(n))
                b = enc(M((I(1), I(kty) if isinstance(kty, int) else kty), kv))
                out.append(case("dec", "CoseKey", b, fam="extra-value-by-kty", expect_re=r"ok .*" + re.escape(pyspec.show(I(n))) + r".*"))
                out.append(case("rt", "CoseKey", b, fam="extra-value-by-kty-rt", expect="ok %s T T" % b.hex()))
    for alg in (-7, -8, 1, 3, 5, -65537, T("custom")):
        for lab in (8, 9, 10, 33, 34, 256, -1, T("x")):
            for n in huge[:4]:
                b = enc(M((I(1), I(alg) if isinstance(alg, int) else alg), (I(lab) if isinstance(lab, int) else lab, I(n))))
                out.append(case("dec", "Header", b, fam="extra-value-by-alg", expect_re=r"ok .*" + re.escape(pyspec.show(I(n))) + r".*"))
    for name in (8, 9, 38, 39, 40, -260, -65537, T("x")):
        for n in huge[:4]:
            b = enc(M((I(1), T("iss")), (I(name) if isinstance(name, int) else name, I(n))))
            out.append(case("dec", "ClaimsSet", b, fam="extra-claim-value", expect_re=r"ok .*" + re.escape(pyspec.show(I(n))) + r".*"))
    # interpreted positions INSIDE nested carriers: the out-of-range error must come through the enclosing decoders
    # (recipients of COSE_Mac / COSE_Encrypt / COSE_recipient, counter-signatures); for signatures nested in COSE_Sign
    # the crate masks every inner error (known finding F6)
    oor = [2**63, 2**64 - 1, -2**63 - 1, -2**64]
    inr = [2**63 - 1, -2**63]
    def hdr_with(pos, n):
        if pos == "label": return M((I(n), I(0)))
        if pos == "alg": return M((I(1), I(n)))
        if pos == "crit": return M((I(2), A(I(n))))
        return M((I(3), I(n)))
    for pos in ("label", "alg", "crit", "ct"):
        for n in oor + inr:
            h = hdr_with(pos, n)
            good = n in inr and pos == "label"
            for prot in (False, True):
                p_, u_ = (B(enc(h)), M()) if prot else (B(b""), h)
                rec = A(p_, u_, NULL); sig = A(p_, u_, B(b""))
                carriers = [("CoseMac", A(B(b""), M(), NULL, B(b""), A(A(B(b""), M(), NULL), rec)), False),
                            ("CoseEncrypt", A(B(b""), M(), NULL, A(rec)), False),
                            ("CoseRecipient", A(B(b""), M(), NULL, A(A(B(b""), M(), NULL, A(rec)))), False),
                            ("CoseSign1", A(B(b""), M((I(7), sig)), NULL, B(b"")), False),
                            ("CoseEncrypt0", A(B(enc(M((I(7), A(A(B(b""), M(), B(b"")), sig))))), M(), NULL), False),
                            ("CoseSign", A(B(b""), M(), NULL, A(A(B(b""), M(), B(b"")), sig)), True)]
                for ty, v, masked in carriers:
                    if n in oor:
                        out.append(case("dec", ty, enc(v), fam="nested-range:" + pos, expect="err:Range", strict_err=True, sign_nested=masked))
                    elif good:
                        out.append(case("dec", ty, enc(v), fam="nested-range-ok", expect_re=r"ok .*"))
    # two distinct in-range identifiers in ONE map, adjacent at the extremes (nothing may conflate them)
    ext = [-2**63, -2**63 + 1, -2**63 + 2, 2**63 - 1, 2**63 - 2, -65537, -65538, -65539, 0, -1, 8, 9]
    for a, b in itertools.permutations(ext, 2):
        claim_ok = all(x < -65536 or x in CLAIM_REG for x in (a, b))
        out.append(case("dec", "ClaimsSet", enc(M((I(a), I(1)), (I(b), I(2)))), fam="extra-pair-claims",
                        **({"expect_re": r"ok .*" + re.escape(pyspec.show(I(a))) + r".*" + re.escape(pyspec.show(I(b))) + r".*"} if claim_ok else {"expect_re": r"err:\w+"})))
        if not (1 <= a <= 7 or 1 <= b <= 7):
            out.append(case("dec", "Header", enc(M((I(a), I(1)), (I(b), I(2)))), fam="extra-pair-header",
                            expect_re=r"ok .*" + re.escape(pyspec.show(I(a))) + r".*" + re.escape(pyspec.show(I(b))) + r".*"))
        if not (1 <= a <= 5 or 1 <= b <= 5):
            out.append(case("rt", "CoseKey", enc(M((I(1), I(4)), (I(a), I(1)), (I(b), I(2)))), fam="extra-pair-key", expect_re=r"ok [0-9a-f]+ T T"))
    if tier == "quick":
        # keep the boundary lattice in full, sample the rest
        keep = [c for c in out if c["fam"] in ("label", "nonce", "key-data-length", "label-encode") or c["fam"].startswith("extra-") or c["fam"].startswith("nested-range")]
        rest = [c for c in out if c["fam"] not in ("label", "nonce", "key-data-length", "label-encode") and not c["fam"].startswith("extra-") and not c["fam"].startswith("nested-range")]
        out = keep + rng.sample(rest, min(len(rest), 6000))
    for n in sorted(set(ALG_REG + ALG_PRIV + [0, 1, -1 if -1 in ALG_REG else 1])):
        h = d_header(alg=d_reg(1 if n in ALG_REG else 0, n))
        for ty in ("CoseSign1", "CoseMac0", "CoseEncrypt0", "CoseRecipient"):
            tail = {"CoseSign1": [NULL, B(b"")], "CoseMac0": [NULL, B(b"")], "CoseEncrypt0": [NULL], "CoseRecipient": [NULL, ('a', [])]}[ty]
            for prot in (True, False):
                d = ('a', [d_protected(None, h if prot else D_EMPTY_HEADER), D_EMPTY_HEADER if prot else h] + tail)
                want = enc(pyspec.wire_value(ty, d))
                out.append(case("encdec", ty, enc(d), fam="extra-built-alg", expect="ok %s ok %s" % (want.hex(), pyspec.show(pyspec.assign(ty, d)))))
    for n in CF_REG[:8] + [0]:
        h = d_header(ctype=d_reg(1, n))
        d = ('a', [d_protected(None, h), D_EMPTY_HEADER, NULL, B(b"")])
        out.append(case("encdec", "CoseSign1", enc(d), fam="extra-built-ct", expect="ok %s ok %s" % (enc(pyspec.wire_value("CoseSign1", d)).hex(), pyspec.show(pyspec.assign("CoseSign1", d)))))
    # interpreted positions of a key that is a MEMBER of a key set, at every index (an element the set decoder
    # cannot represent is an error of the whole set, never a silently shorter set)
    okkey = M((I(1), I(4)), (I(-1), B(b"k")))
    def key_with(pos, n):
        if pos == "label": return M((I(1), I(4)), (I(n), I(0)))
        if pos == "kty": return M((I(1), I(n)))
        if pos == "alg": return M((I(1), I(4)), (I(3), I(n)))
        return M((I(1), I(4)), (I(4), A(I(n))))
    for pos in ("label", "kty", "alg", "key-op"):
        for n in oor + inr:
            for size in (1, 2, 3):
                for idx in range(size):
                    ks = [okkey] * size; ks[idx] = key_with(pos, n)
                    b = enc(A(*ks))
                    if n in oor:
                        out.append(case("dec", "CoseKeySet", b, fam="keyset-member-range:" + pos, expect="err:Range", strict_err=True))
                    elif pos == "label":
                        out.append(case("dec", "CoseKeySet", b, fam="keyset-member-range-ok", expect_re=r"ok .*" + re.escape(pyspec.show(I(n))) + r".*"))
                        out.append(case("rt", "CoseKeySet", b, fam="keyset-member-range-ok", expect="ok %s T T" % b.hex()))
                    else:
                        out.append(case("dec", "CoseKeySet", b, fam="keyset-member-range-inr", strict_err=True))
    out += [c for c in bignum_toplevel_cases() if c["fam"] == "base"]
    # integers that become a REGISTERED identifier when truncated to 8 / 16 / 31 / 32 / 33 bits (never wrapped): at the
    # registry-typed positions the value is classified as what it is
    import tables as _tb
    for regname, pos in (("Algorithm", [("Header", lambda x: head(5, 1) + b"\x01" + x), ("CoseKey", lambda x: head(5, 2) + b"\x01\x01\x03" + x), ("RegP:Algorithm", lambda x: x),
                                        ("CoseKdfContext", lambda x: b"\x84" + x + b"\x83\xf6\xf6\xf6\x83\xf6\xf6\xf6\x82\x00\x40")]),
                         ("CwtClaimName", [("ClaimsSet", lambda x: head(5, 1) + x + b"\x00")]), ("KeyType", [("CoseKey", lambda x: head(5, 1) + b"\x01" + x)]),
                         ("CoapContentFormat", [("Header", lambda x: head(5, 1) + b"\x03" + x)]), ("HeaderParameter", [("Header", lambda x: head(5, 1) + b"\x02\x81" + x)]),
                         ("KeyOperation", [("CoseKey", lambda x: head(5, 2) + b"\x01\x01\x04\x81" + x)])):
        vals = sorted(_tb.REG[regname])
        if tier == "quick" and len(vals) > 25: vals = rng.sample(vals, 25)
        for v in vals:
            for k in (8, 16, 31, 32, 33):
                for a in (v + 2**k, v - 2**k):
                    for ty, wrap in pos:
                        out.append(case("dec", ty, wrap(enc(I(a))), fam="wrap-alias:" + regname, strict_err=True))
    # encode side: a typed field with label n together with an EXTRA label that equals n only after truncation
    # (n +- 2^8, 2^16, 2^32, 2^33, n + 0x7fffffff * 2^32, -n): distinct labels, both emitted with their exact values
    for n, kw in ((1, {"alg": d_reg(1, -7)}), (3, {"ctype": d_reg(1, 60)}), (4, {"kid": b"k"}), (5, {"iv": b"i"}), (6, {"piv": b"p"}), (2, {"crit": (d_reg(1, 4),)})):
        for d in (2**8, 2**16, 2**32, 2**33, 0x7fffffff * 2**32, 2**31, 2**62):
            for lab in (n + d, n - d, -n - d, d - n):
                if not -2**63 <= lab < 2**63: continue
                h = d_header(rest=((I(lab), I(1)),), **kw)
                want = enc(pyspec.header_map(h))
                out.append(case("encdec", "Header", enc(h), fam="extra-built-alias-label", expect="ok %s ok %s" % (want.hex(), pyspec.show(pyspec.assign("Header", h)))))
                d1 = ('a', [d_protected(None, h), D_EMPTY_HEADER, NULL, B(b"")])
                out.append(case("enc", "CoseSign1", enc(d1), fam="extra-built-alias-label", expect="ok " + enc(pyspec.wire_value("CoseSign1", d1)).hex()))
    for n in (1, 2, 3, 4, 5):
        for d in (2**8, 2**16, 2**32, 2**33, 0x7fffffff * 2**32):
            for lab in (n + d, n - d):
                b = enc(M((I(1), I(4)), (I(2), B(b"kid")), (I(3), I(-7)), (I(4), A(I(1))), (I(5), B(b"iv")), (I(lab), I(1))))
                out.append(case("rt", "CoseKey", b, fam="extra-alias-label-key", expect="ok %s T T" % b.hex()))
    for n in (1, 2, 3, 4, 5, 6, 7):
        for d in (2**32, 2**33):
            lab = n - d - 2**17     # private-use range
            b = enc(M((I(1), T("i")), (I(2), T("s")), (I(3), T("a")), (I(4), I(1)), (I(5), I(1)), (I(6), I(1)), (I(7), B(b"c")), (I(lab), I(1))))
            out.append(case("rt", "ClaimsSet", b, fam="extra-alias-label-claims", expect="ok %s T T" % b.hex()))
    return out

# ================================================================= C14
def cases_C14(rng, tier):
    out = []
    n = Q(tier, 6, 40)
    for ty in TAGGED_TYPES:
        bodies = [enc(gen_msg(rng, ty, 1)) for _ in range(n)]
        bodies += [enc(('a', fault_msg_items(rng, gen_msg_items(rng, ty, 1)))) for _ in range(n // 2)]
        # shapes shared with other types
        for other in TAGGED_TYPES:
            if other != ty: bodies.append(enc(gen_msg(rng, other, 1)))
        for body in bodies:
            for t in sorted(set(TAGS + [MSG_TAG[ty] - 1, MSG_TAG[ty] + 1])):
                for w in (widths_for(t) if t in MSG_TAG.values() else [None]):
                    tagged = head(6, t, w) + body
                    out.append(case("dectag", ty, tagged, fam="tag-matrix", tag=t, body=body, mine=MSG_TAG[ty]))
                    out.append(case("dec", ty, tagged, fam="untagged-decoder-on-tagged", expect_re=r"err:\w+"))
            # tag numbers that become the registered one when truncated / sign-converted / masked
            mine = MSG_TAG[ty]
            for t in sorted(set([mine + 2**8, mine + 2**16, mine + 2**32, mine + 2**33, mine + 2**63, (2**64 - 2**32) + mine,
                                 (2**64 - 2**16) + mine, 2**64 - mine, 2**32 - mine, mine * 256, mine << 32])):
                if 0 <= t < 2**64 and t != mine:
                    out.append(case("dectag", ty, head(6, t) + body, fam="tag-alias", expect_re=r"err:\w+"))
            out.append(case("dec", ty, body, fam="untagged", body=body))
            out.append(case("dectag", ty, body, fam="untagged-to-tagged-decoder"))
            out.append(case("dectag", ty, head(6, MSG_TAG[ty]) + head(6, MSG_TAG[ty]) + body, fam="double-tag", expect_re=r"err:\w+"))
            out.append(case("dectag", ty, head(6, 55799) + head(6, MSG_TAG[ty]) + body, fam="double-tag", expect_re=r"err:\w+"))
        for _ in range(n):
            d = gen_desc_msg(rng, ty)
            want = pyspec.wire_value(ty, d)
            out.append(case("enctag", ty, enc(d), fam="tagged-encode",
                            expect="ok " + (head(6, MSG_TAG[ty]) + enc(want)).hex()))
            out.append(case("enc", ty, enc(d), fam="untagged-encode", expect="ok " + enc(want).hex()))
    for ty in TAGGED_TYPES:
        body = enc(gen_msg(rng, ty, 1))
        own = head(6, MSG_TAG[ty]) + body
        for t in sorted(set(TAGS + [0, 1, 2, 3, 4, 5, 16, 17, 18, 21, 22, 23, 24, 32, 33, 34, 35, 36, 61, 63, 96, 97, 98, 256, 55799, 55800, 2**32, 2**64 - 1])):
            out.append(case("dectag", ty, head(6, t) + own, fam="tag-over-own-tag", expect_re=r"err:\w+"))
            out.append(case("dec", ty, head(6, t) + own, fam="tag-over-own-tag", expect_re=r"err:\w+"))
    # legal but deep nesting in every free-form position, around every plausible smaller recursion limit
    # (ciborium's own is 256; the proved model decides each depth)
    for d in (6, 7, 8, 9, 15, 16, 17, 31, 32, 33, 63, 64, 65, 127, 128, 129, 200, 250, 253, 254, 255, 256):
        deep = b"\x81" * d + b"\x00"
        deepm = b"".join(b"\xa1\x00" for _ in range(d)) + b"\x00"
        for inner in (deep, deepm):
            for ty, b in (("Header", b"\xa1\x18\x63" + inner), ("CoseKey", b"\xa2\x01\x04\x20" + inner), ("ClaimsSet", b"\xa1\x18\x63" + inner),
                          ("CoseSign1", b"\x84\x40\xa1\x18\x63" + inner + b"\xf6\x40"), ("CoseEncrypt0", b"\x83" + enc(B(b"\xa1\x18\x63" + inner)) + b"\xa0\xf6"),
                          ("CoseMac", b"\x85\x40\xa0\xf6\x40\x81\x83\x40\xa1\x18\x63" + inner + b"\xf6")):
                out.append(case("dec", ty, b, fam="depth-sweep", key=(ty, b)))
                out.append(case("rt", ty, b, fam="depth-sweep-rt", key=(ty, b)))
                if ty in TAGGED_TYPES:
                    out.append(case("dectag", ty, head(6, MSG_TAG[ty]) + b, fam="depth-sweep-tagged"))
    # a tag over something that merely CONTAINS an accepted body (encoded-CBOR byte string, tag 24 and friends,
    # one-element array, map value): nothing may look through a wrapper, on either entry point, under any tag
    for ty in TAGGED_TYPES:
        body = enc(gen_msg(rng, ty, 1)); own = head(6, MSG_TAG[ty])
        wraps = [enc(B(body)), enc(B(own + body)), b"\x81" + body, b"\x81" + own + body, b"\xa1\x00" + body, enc(T(body.hex())),
                 b"\x5f" + enc(B(body)) + b"\xff", enc(B(enc(B(body))))]
        for w in wraps:
            out.append(case("dec", ty, w, fam="wrapped-body", expect_re=r"err:\w+"))
            out.append(case("dectag", ty, w, fam="wrapped-body", expect_re=r"err:\w+"))
            out.append(case("dectag", ty, own + w, fam="wrapped-body-own-tag", expect_re=r"err:\w+"))
            for t in sorted(set(TAGS + list(MSG_TAG.values()) + [1, 4, 5, 21, 22, 23, 24, 25, 26, 27, 32, 36, 63, 64, 100, 256, 55800, 2**32])):
                x = head(6, t) + w
                out.append(case("dec", ty, x, fam="tag-over-wrapped-body", expect_re=r"err:\w+"))
                out.append(case("dectag", ty, x, fam="tag-over-wrapped-body", expect_re=r"err:\w+"))
                out.append(case("dectag", ty, own + x, fam="own-tag-over-tag-over-wrapped-body", expect_re=r"err:\w+"))
    out += [c for c in protected_nesting_cases() if c["line"].split()[1] in TAGGED_TYPES]
    return out

def post_C14(cases, impl):
    """tagged decode accepts iff right tag once over an accepted body, with the same value"""
    probs = []
    by_body = {}
    for c, o in zip(cases, impl):
        if c["fam"] == "untagged": by_body[(c["line"].split()[1], c["body"])] = o
    for c, o in zip(cases, impl):
        if c["fam"] != "tag-matrix": continue
        ty = c["line"].split()[1]
        base = by_body.get((ty, c["body"]))
        if base is None: continue
        if c["tag"] == c["mine"]:
            if norm(o) != norm(base):
                probs.append((c, o, "tagged decode differs from untagged decode of the body: %s" % base[:200]))
        elif not o.startswith("err:"):
            probs.append((c, o, "foreign tag %d accepted" % c["tag"]))
    return probs

# ================================================================= C13
def cases_C13(rng, tier):
    out = []
    for ty, b in corpus(rng, Q(tier, 250, 3000)):
        out.append(case("dec", ty, b, fam="base", key=(ty, b)))
        out.append(case("decval", ty, b, fam="api-decode", key=(ty, b), impl_only=True))
        sufs = [bytes([rng.choice([0x00, 0x20, 0x40, 0x60, 0x80, 0xa0, 0xc0, 0xf6, 0xff])]), enc(gen_scalar(rng)), rbytes(rng, 3) or b"\x00"]
        for s in sufs:
            out.append(case("dec", ty, b + s, fam="suffix", key=(ty, b), strict_err=True))
        cuts = range(len(b)) if len(b) <= Q(tier, 12, 40) else sorted(rng.sample(range(len(b)), Q(tier, 8, 24)))
        for k in cuts:
            out.append(case("dec", ty, b[:k], fam="prefix", key=(ty, b)))
        if ty in TAGGED_TYPES:
            tb = head(6, MSG_TAG[ty]) + b
            out.append(case("dectag", ty, tb, fam="base-tagged", key=(ty, tb)))
            out.append(case("dectag", ty, tb + sufs[0], fam="suffix-tagged", key=(ty, tb), strict_err=True))
            out.append(case("dectag", ty, tb[:rng.randrange(len(tb))], fam="prefix-tagged", key=(ty, tb)))
    # inside a protected bstr
    for _ in range(Q(tier, 60, 600)):
        h = enc(gen_header_map(rng, 1), rng)
        variants = [(h, "protected-base"), (h + b"\x00", "protected-suffix")]
        if len(h) > 1:   # the zero-length protected bstr is the (valid) short form of an empty header
            variants.append((h[:-1], "protected-prefix"))
        for inner, fam in variants:
            m = enc(A(B(inner), M(), NULL, B(b"")))
            out.append(case("dec", "CoseSign1", m, fam=fam, key=h, strict_err=True))
    for ty in DESC_GEN:
        for _ in range(Q(tier, 6, 60)):
            d = enc(DESC_GEN[ty](rng))
            out.append(case("enc", ty, d, fam="enc", key=(ty, d)))
            out.append(case("encval", ty, d, fam="api-encode", key=(ty, d), impl_only=True))
    # a protected header that retains wire bytes (as obtained from a decoded message): to_vec is still the
    # serialisation of to_cbor_value(), i.e. of the header's current content, not the retained bytes
    for _ in range(Q(tier, 40, 400)):
        pb = rng.choice([b"", gen_protected_bytes(rng, 1), enc(gen_header_map(rng, 1), rng)])
        hd = rng.choice([D_EMPTY_HEADER, gen_desc_header(rng, 1)])
        d = enc(d_protected(pb, hd))
        out.append(case("enc", "ProtectedHeader", d, fam="enc", key=("ProtectedHeader", d)))
        out.append(case("encval", "ProtectedHeader", d, fam="api-encode", key=("ProtectedHeader", d), impl_only=True))
    for ty in TAGGED_TYPES:
        body = enc(gen_msg(rng, ty, 1))
        own = head(6, MSG_TAG[ty]) + body
        for t in sorted(set(TAGS + [0, 1, 2, 3, 4, 5, 16, 17, 18, 21, 22, 23, 24, 32, 33, 34, 35, 36, 61, 63, 96, 97, 98, 256, 55799, 55800, 2**32, 2**64 - 1])):
            out.append(case("dectag", ty, head(6, t) + own, fam="tag-over-own-tag", expect_re=r"err:\w+"))
            out.append(case("dec", ty, head(6, t) + own, fam="tag-over-own-tag", expect_re=r"err:\w+"))
    for n in [x for x in LATTICE if -2**63 <= x < 2**63]:
        d = enc(I(n))
        out.append(case("enc", "Label", d, fam="enc", key=("Label", d), expect="ok " + enc(I(n)).hex()))
        out.append(case("encval", "Label", d, fam="api-encode", key=("Label", d), impl_only=True))
    for t in TEXT_LABELS:
        d = enc(T(t))
        out.append(case("enc", "Label", d, fam="enc", key=("Label", d), expect="ok " + d.hex()))
        out.append(case("encval", "Label", d, fam="api-encode", key=("Label", d), impl_only=True))
    # legal but deep nesting in every free-form position, around every plausible smaller recursion limit
    # (ciborium's own is 256; the proved model decides each depth)
    for d in (6, 7, 8, 9, 15, 16, 17, 31, 32, 33, 63, 64, 65, 127, 128, 129, 200, 250, 253, 254, 255, 256):
        deep = b"\x81" * d + b"\x00"
        deepm = b"".join(b"\xa1\x00" for _ in range(d)) + b"\x00"
        for inner in (deep, deepm):
            for ty, b in (("Header", b"\xa1\x18\x63" + inner), ("CoseKey", b"\xa2\x01\x04\x20" + inner), ("ClaimsSet", b"\xa1\x18\x63" + inner),
                          ("CoseSign1", b"\x84\x40\xa1\x18\x63" + inner + b"\xf6\x40"), ("CoseEncrypt0", b"\x83" + enc(B(b"\xa1\x18\x63" + inner)) + b"\xa0\xf6"),
                          ("CoseMac", b"\x85\x40\xa0\xf6\x40\x81\x83\x40\xa1\x18\x63" + inner + b"\xf6")):
                out.append(case("dec", ty, b, fam="depth-sweep", key=(ty, b)))
                out.append(case("rt", ty, b, fam="depth-sweep-rt", key=(ty, b)))
                if ty in TAGGED_TYPES:
                    out.append(case("dectag", ty, head(6, MSG_TAG[ty]) + b, fam="depth-sweep-tagged"))
    for ty in TAGGED_TYPES:
        for _ in range(3):
            body = enc(gen_msg(rng, ty, 1))
            out.append(case("dec", ty, body, fam="base", key=(ty, body)))
            for w in widths_for(MSG_TAG[ty]):
                tb = head(6, MSG_TAG[ty], w) + body
                out.append(case("dectag", ty, tb, fam="tag-head-widths", key=(ty, body)))
    for ty, b in corpus(rng, Q(tier, 60, 600)):
        for t in (61, 55799, 1, 24, 2, 18, 98):
            tb = head(6, t) + b
            out.append(case("dec", ty, tb, fam="base", key=(ty, tb)))
            out.append(case("decval", ty, tb, fam="api-decode", key=(ty, tb), impl_only=True))
    # every variable-length position filled with n well-formed entries (no CDDL upper bound on any of them)
    for name, ty, b, n in width_sweep(None):
        out.append(case("dec", ty, b, fam="width-sweep:" + name, **({"expect_re": r"ok .*"} if n >= 1 else {})))
    out += wrapped_body_cases(rng)
    out += depth_sweep_cases(("Header", "CoseKey", "CoseKeySet", "ClaimsSet", "CoseSign1", "CoseEncrypt0", "CoseMac", "CoseSign"))
    out += protected_nesting_cases(api=True)
    out += bignum_toplevel_cases()
    # the EMPTY input and the one-byte inputs at every entry point of every type (an accepted input is exactly one
    # CBOR item: no bytes at all is none), plus the shortest accepted encoding of each type cut at every position
    shortest = {"Header": b"\xa0", "ProtectedHeader": b"\xa0", "CoseKey": b"\xa1\x01\x04", "CoseKeySet": b"\x80", "ClaimsSet": b"\xa0", "Label": b"\x00", "Value": b"\x00",
                "CoseSignature": b"\x83\x40\xa0\x40", "CoseSign": b"\x84\x40\xa0\xf6\x80", "CoseSign1": b"\x84\x40\xa0\xf6\x40", "CoseMac": b"\x85\x40\xa0\xf6\x40\x80", "CoseMac0": b"\x84\x40\xa0\xf6\x40",
                "CoseRecipient": b"\x83\x40\xa0\xf6", "CoseEncrypt": b"\x84\x40\xa0\xf6\x80", "CoseEncrypt0": b"\x83\x40\xa0\xf6", "PartyInfo": b"\x83\xf6\xf6\xf6", "SuppPubInfo": b"\x82\x00\x40",
                "CoseKdfContext": b"\x84\x01\x83\xf6\xf6\xf6\x83\xf6\xf6\xf6\x82\x00\x40"}
    for ty in ALL_TYPES + ["RegP:Algorithm", "Reg:KeyType", "RegP:CwtClaimName", "Reg:CoapContentFormat"]:
        out.append(case("dec", ty, b"", fam="empty-input", expect_re=r"err:\w+"))
        if ty in TAGGED_TYPES: out.append(case("dectag", ty, b"", fam="empty-input", expect_re=r"err:\w+"))
        b = shortest.get(ty)
        if b is None: continue
        out.append(case("dec", ty, b, fam="base", key=(ty, b), expect_re=r"ok.*"))
        out.append(case("decval", ty, b, fam="api-decode", key=(ty, b), impl_only=True))
        for k in range(len(b)):
            out.append(case("dec", ty, b[:k], fam="prefix", key=(ty, b)))
        out.append(case("dec", ty, b + b"\x00", fam="suffix", key=(ty, b), strict_err=True))
    # tagged encoding = tag head + untagged encoding = serialisation of the tagged item, for messages whose protected
    # header retains wire bytes of every spelling (top level and nested)
    import gen as _g
    _g.wire_protected(rng)
    for ty in TAGGED_TYPES:
        for pb, h in _g.WIRE_PROTS:
            tail = {"CoseSign1": [NULL, B(b"s")], "CoseMac0": [NULL, B(b"t")], "CoseEncrypt0": [NULL], "CoseSign": [NULL, ('a', [d_signature(d_protected(pb, h), D_EMPTY_HEADER, b"s")])],
                    "CoseMac": [NULL, B(b"t"), ('a', [A(d_protected(pb, h), D_EMPTY_HEADER, NULL, ('a', []))])], "CoseEncrypt": [NULL, ('a', [A(d_protected(pb, h), D_EMPTY_HEADER, NULL, ('a', []))])]}[ty]
            d = ('a', [d_protected(pb, h), D_EMPTY_HEADER] + tail)
            want = enc(pyspec.wire_value(ty, d))
            out.append(case("enc", ty, enc(d), fam="enc", key=(ty, enc(d)), expect="ok " + want.hex()))
            out.append(case("encval", ty, enc(d), fam="api-encode", key=(ty, enc(d)), impl_only=True))
            out.append(case("enctag", ty, enc(d), fam="enctag-retained", expect="ok " + (head(6, MSG_TAG[ty]) + want).hex()))
    return out

def post_C13(cases, impl):
    probs = []
    base = {}
    for c, o in zip(cases, impl):
        if c["fam"] in ("base", "base-tagged", "enc", "protected-base"): base[(c["fam"], c["key"])] = o
    for c, o in zip(cases, impl):
        f = c["fam"]
        if f == "api-decode" and norm(o) != norm(base[("base", c["key"])]):
            probs.append((c, o, "from_slice and from_cbor_value(read) disagree: %s" % base[("base", c["key"])][:200]))
        if f == "api-encode" and o != base[("enc", c["key"])]:
            probs.append((c, o, "to_vec and to_cbor_value().to_vec() disagree: %s" % base[("enc", c["key"])][:200]))
        if f in ("suffix", "prefix") and base[("base", c["key"])].startswith("ok"):
            if f == "suffix" and o != "err:Extra": probs.append((c, o, "suffix after an accepted input not rejected as extraneous data"))
            if f == "prefix" and not o.startswith("err:"): probs.append((c, o, "proper prefix of an accepted input accepted"))
        if f in ("suffix-tagged", "prefix-tagged") and base[("base-tagged", c["key"])].startswith("ok"):
            if f == "suffix-tagged" and o != "err:Extra": probs.append((c, o, "suffix after an accepted tagged input not rejected as extraneous data"))
            if f == "prefix-tagged" and not o.startswith("err:"): probs.append((c, o, "proper prefix of an accepted tagged input accepted"))
        if f in ("protected-suffix", "protected-prefix") and base[("protected-base", c["key"])].startswith("ok"):
            if f == "protected-suffix" and o != "err:Extra": probs.append((c, o, "trailing byte inside a protected bstr accepted / wrong error"))
            if f == "protected-prefix" and not o.startswith("err:"): probs.append((c, o, "truncated header inside a protected bstr accepted"))
    return probs


# ================================================================= C03 / C04 / C05
LEN_CLASSES_Q = [0, 1, 23, 24, 255, 256]
LEN_CLASSES_T = [0, 1, 23, 24, 255, 256, 65535, 65536]

def gen_prot_desc(rng):
    """(description, exact bytes it must contribute)"""
    r = rng.random()
    if r < 0.45:
        pb = gen_protected_bytes(rng, 1)
        # decoded from the wire: whatever the encoding, the stored bytes are used
        return d_protected(pb, D_EMPTY_HEADER), pb
    if r < 0.6:
        return d_protected(None, D_EMPTY_HEADER), b""
    h = gen_desc_header(rng, 1)
    d = d_protected(None, h)
    return d, pyspec.protected_bytes(d)

def blob(rng, lens):
    return rbytes(rng, rng.choice(lens))

def unencodable_header(rng):
    """a built header whose encoding fails (repeated extra label / extra naming a populated typed field)"""
    if rng.random() < 0.5:
        l = rng.choice([I(1000), T("x"), I(-70000)])
        return d_header(rest=[(l, I(1)), (l, I(2))])
    return d_header(kid=b"k", rest=[(I(4), B(b"z"))])

def builder_header_choice(rng):
    """(description, protected bytes it must contribute) for a header handed to a builder's protected()"""
    r = rng.random()
    if r < 0.3: return D_EMPTY_HEADER, b""
    h = gen_desc_header(rng, 0)
    return h, (b"" if pyspec.header_empty(h) else enc(pyspec.header_map(h)))

def single_field_headers():
    """headers holding exactly one populated field (each of the eight), used wherever "empty vs non-empty"
    decides the wire form"""
    return [d_header(alg=d_reg(1, -7)), d_header(crit=[d_reg(1, 4)]), d_header(ctype=d_reg(1, 50)), d_header(kid=b"k"),
            d_header(iv=b"i"), d_header(piv=b"p"), d_header(csigs=[d_signature(d_protected(None, D_EMPTY_HEADER), D_EMPTY_HEADER, b"s")]),
            d_header(rest=[(I(99), I(1))]), d_header(rest=[(T("x"), NULL)]),
            d_header(csigs=[d_signature(d_protected(None, D_EMPTY_HEADER), D_EMPTY_HEADER, b"s"), d_signature(d_protected(None, d_header(kid=b"q")), D_EMPTY_HEADER, b"t")]),
            d_header(csigs=[d_signature(d_protected(None, D_EMPTY_HEADER), D_EMPTY_HEADER, bytes([i])) for i in (1, 2, 3)]),
            d_header(csigs=[d_signature(d_protected(None, D_EMPTY_HEADER), d_header(kid=bytes([i])), bytes([i])) for i in (4, 3, 2, 1)]),
            d_header(crit=[d_reg(1, 4), d_reg(1, 1), d_reg(2, "z"), d_reg(1, 2)]),
            # fields holding their type's default-looking value are populated all the same
            d_header(alg=d_reg(1, 0)), d_header(ctype=d_reg(1, 0)), d_header(crit=[d_reg(1, 0)]), d_header(kid=b"\x00"),
            d_header(alg=d_reg(2, "")), d_header(rest=[(I(0), I(0))]), d_header(rest=[(T(""), NULL)]),
            # the private-use variant of an in-memory algorithm holds whatever integer it was given
            d_header(alg=d_reg(0, -65537)), d_header(alg=d_reg(0, -2**63)), d_header(alg=d_reg(0, -65536)), d_header(alg=d_reg(0, -100)),
            d_header(alg=d_reg(0, 1000)), d_header(alg=d_reg(0, 2**63 - 1)), d_header(alg=d_reg(0, 8)),
            # in-memory text values are emitted exactly as given, blanks included
            d_header(ctype=d_reg(2, " a/b")), d_header(ctype=d_reg(2, "a/b ")), d_header(ctype=d_reg(2, "\ta/b\n")), d_header(crit=[d_reg(2, " x ")]), d_header(alg=d_reg(2, " a ")),
            d_header(rest=[(T(" x "), I(1))]),
            d_header(rest=[(I(300), I(1)), (I(-1), I(2)), (T("b"), I(3)), (I(9), I(4)), (T("a"), I(5))])]

def single_field_prots():
    """(description, exact bytes) of built protected headers with one populated field, plus the empty one"""
    out = [(d_protected(None, D_EMPTY_HEADER), b"")]
    for h in single_field_headers():
        d = d_protected(None, h)
        out.append((d, pyspec.protected_bytes(d)))
    return out

def product_prots():
    """protected-header classes for full products with entry points: built (empty, each single field, a multi-field
    one) and decoded (retained bytes: empty, a0, indefinite empty, non-canonical map)"""
    multi = d_header(alg=d_reg(1, -7), crit=[d_reg(1, 4)], kid=b"k", rest=[(I(99), I(1)), (T("x"), NULL)])
    both = d_header(iv=b"\x01\x02\x03", piv=b"\x04")       # only a struct literal can hold both IVs; it is encoded as it stands
    both2 = d_header(alg=d_reg(1, 1), iv=b"i", piv=b"p", rest=[(I(99), I(1))])
    out = single_field_prots() + [(d_protected(None, h), pyspec.protected_bytes(d_protected(None, h))) for h in (multi, both, both2)]
    for pb in (b"", b"\xa0", b"\xbf\xff", b"\xbf\x18\x01\x38\x06\xff", b"\xa2\x04\x41\x6b\x01\x26"):
        out.append((d_protected(pb, D_EMPTY_HEADER), pb))
    return out

def cases_C03(rng, tier):
    out = []
    lens = Q(tier, LEN_CLASSES_Q, LEN_CLASSES_T)
    seen = {}
    # full product: every helper entry point x every protected-header class (body and signer)
    prots = product_prots()
    for bi, (body, bb) in enumerate(prots):
        aad, pl, sg = b"aad", b"payload", b"sg"
        m1 = A(body, D_EMPTY_HEADER, B(pl), B(sg)); m1d = A(body, D_EMPTY_HEADER, NULL, B(sg))
        w1 = pyspec.sig_structure("CoseSign1", bb, None, aad, pl)
        out.append(case("helperdesc", "sign1.tbs_data", enc(m1), aad, fam="product:sign1.tbs_data", expect="ok " + w1.hex()))
        out.append(case("helperdesc", "sign1.verify_signature", enc(m1), aad, fam="product:sign1.verify", expect="ok %s %s" % (sg.hex(), w1.hex())))
        out.append(case("helperdesc", "sign1.tbs_detached_data", enc(m1d), pl, aad, fam="product:sign1.tbs_detached", expect="ok " + w1.hex()))
        out.append(case("helperdesc", "sign1.verify_detached_signature", enc(m1d), pl, aad, fam="product:sign1.verify_detached",
                        expect="ok %s %s" % (sg.hex(), w1.hex())))
        for si in (bi, (bi * 5 + 3) % len(prots), (bi * 7 + 1) % len(prots)):
            sp, spb = prots[si]
            sigs = ('a', [d_signature(d_protected(None, D_EMPTY_HEADER), D_EMPTY_HEADER, b"s0"), d_signature(sp, D_EMPTY_HEADER, b"s1")])
            ms = A(body, D_EMPTY_HEADER, B(pl), sigs); msd = A(body, D_EMPTY_HEADER, NULL, sigs)
            ws = pyspec.sig_structure("CoseSignature", bb, spb, aad, pl)
            out.append(case("helperdesc", "sign.tbs_data", enc(ms), aad, b"\x01", fam="product:sign.tbs_data", expect="ok " + ws.hex()))
            out.append(case("helperdesc", "sign.verify_signature", enc(ms), b"\x01", aad, fam="product:sign.verify", expect="ok 7331 " + ws.hex()))
            out.append(case("helperdesc", "sign.tbs_detached_data", enc(msd), pl, aad, b"\x01", fam="product:sign.tbs_detached", expect="ok " + ws.hex()))
            out.append(case("helperdesc", "sign.verify_detached_signature", enc(msd), b"\x01", pl, aad, fam="product:sign.verify_detached",
                            expect="ok 7331 " + ws.hex()))
            w0 = pyspec.sig_structure("CoseSignature", bb, b"", aad, pl)
            out.append(case("helperdesc", "sign.tbs_data", enc(ms), aad, b"\x00", fam="product:sign.tbs_data", expect="ok " + w0.hex()))
    for _ in range(Q(tier, 500, 5000)):
        ctx = rng.choice(list(pyspec.SIG_CTX))
        body, bb = gen_prot_desc(rng)
        sign, sb = (gen_prot_desc(rng) if rng.random() < 0.5 else (NULL, None))
        aad, pl = blob(rng, lens), blob(rng, lens)
        want = pyspec.sig_structure(ctx, bb, sb, aad, pl)
        out.append(case("sigdata", ctx, enc(body), enc(sign), aad, pl, fam="sig_structure_data",
                        expect="ok " + want.hex(), tuple=(ctx, bb, sb, aad, pl)))
    for body, bb in single_field_prots():
        for sign, sb in [(NULL, None)] + single_field_prots()[:6]:
            for ctx in pyspec.SIG_CTX:
                want = pyspec.sig_structure(ctx, bb, sb, b"a", b"p")
                out.append(case("sigdata", ctx, enc(body), enc(sign), b"a", b"p", fam="single-field-headers",
                                expect="ok " + want.hex(), tuple=(ctx, bb, sb, b"a", b"p")))
    for _ in range(Q(tier, 40, 400)):
        # "always serializable" is an assumption: a built header that cannot be encoded must be refused
        # (documented expect), never signed as if it were something else
        bad = d_protected(None, unencodable_header(rng))
        good, _gb = gen_prot_desc(rng)
        ctx = rng.choice(list(pyspec.SIG_CTX))
        out.append(case("sigdata", ctx, enc(bad), enc(NULL), b"a", b"p", fam="unencodable-body", expect="panic", may_panic=True))
        out.append(case("sigdata", ctx, enc(good), enc(bad), b"a", b"p", fam="unencodable-signer", expect="panic", may_panic=True))
        out.append(case("helperdesc", "sign1.tbs_data", enc(A(bad, D_EMPTY_HEADER, B(b"p"), B(b""))), b"a", fam="unencodable-body", expect="panic", may_panic=True))
    for _ in range(Q(tier, 300, 3000)):
        # through the message helpers, message given in memory
        body, bb = gen_prot_desc(rng)
        aad = blob(rng, lens)
        embedded = rng.random() < 0.6
        pl = blob(rng, lens)
        sig = rbytes(rng)
        if rng.random() < 0.5:
            m = A(body, gen_desc_header(rng, 0), B(pl) if embedded else NULL, B(sig))
            if embedded:
                want = pyspec.sig_structure("CoseSign1", bb, None, aad, pl)
                out.append(case("helperdesc", "sign1.tbs_data", enc(m), aad, fam="sign1.tbs_data", expect="ok " + want.hex()))
                out.append(case("helperdesc", "sign1.verify_signature", enc(m), aad, fam="sign1.verify",
                                expect="ok %s %s" % (sig.hex(), want.hex())))
                out.append(case("helperdesc", "sign1.tbs_detached_data", enc(m), pl, aad, fam="sign1.detached-on-embedded",
                                expect="panic", may_panic=True))
            else:
                want = pyspec.sig_structure("CoseSign1", bb, None, aad, pl)
                out.append(case("helperdesc", "sign1.tbs_detached_data", enc(m), pl, aad, fam="sign1.tbs_detached", expect="ok " + want.hex()))
                out.append(case("helperdesc", "sign1.verify_detached_signature", enc(m), pl, aad, fam="sign1.verify_detached",
                                expect="ok %s %s" % (sig.hex(), want.hex())))
                want0 = pyspec.sig_structure("CoseSign1", bb, None, aad, b"")
                out.append(case("helperdesc", "sign1.tbs_data", enc(m), aad, fam="sign1.tbs_data-nopayload", expect="ok " + want0.hex()))
        else:
            nsig = rng.choice([1, 2, 3])
            sigs = []; sbytes = []
            for _i in range(nsig):
                sp, spb = gen_prot_desc(rng)
                sg = rbytes(rng)
                sigs.append(d_signature(sp, gen_desc_header(rng, 0), sg)); sbytes.append((spb, sg))
            m = A(body, gen_desc_header(rng, 0), B(pl) if embedded else NULL, ('a', sigs))
            w = rng.randrange(nsig)
            want = pyspec.sig_structure("CoseSignature", bb, sbytes[w][0], aad, pl)
            if embedded:
                out.append(case("helperdesc", "sign.tbs_data", enc(m), aad, bytes([w]), fam="sign.tbs_data", expect="ok " + want.hex()))
                out.append(case("helperdesc", "sign.verify_signature", enc(m), bytes([w]), aad, fam="sign.verify",
                                expect="ok %s %s" % (sbytes[w][1].hex(), want.hex())))
            else:
                out.append(case("helperdesc", "sign.tbs_detached_data", enc(m), pl, aad, bytes([w]), fam="sign.tbs_detached", expect="ok " + want.hex()))
                out.append(case("helperdesc", "sign.verify_detached_signature", enc(m), bytes([w]), pl, aad, fam="sign.verify_detached",
                                expect="ok %s %s" % (sbytes[w][1].hex(), want.hex())))
            out.append(case("helperdesc", "sign.verify_signature", enc(m), bytes([nsig]), aad, fam="sign.index-out-of-range",
                            expect="panic", may_panic=True))
    # counter-signatures of decoded messages: context CounterSignature, body = the message's protected bytes,
    # sign_protected = the counter-signature's protected bytes as received (nested one level down, or in the
    # unprotected header), every spelling
    inner_spellings = [b"", b"\xa0", b"\xbf\xff", b"\xb8\x00", b"\xa1\x01\x26", b"\xbf\x01\x26\xff", b"\xa2\x04\x41\x6b\x01\x26", b"\xa1\x18\x01\x38\x06"]
    for ip in inner_spellings:
        for form in ("single", "list"):
            for where in ("protected", "unprotected"):
                for style in (None, "noncanon"):
                    cs0 = A(B(ip), M(), B(b"cs0")); cs1 = A(B(b"\xa1\x04\x41\x31"), M(), B(b"cs1"))
                    v7 = cs0 if form == "single" else A(cs1, cs0)
                    k = 0 if form == "single" else 1
                    hmap = M((I(1), I(-7)), (I(7), v7))
                    hb = enc(hmap, rng if style else None, style="nobignum")
                    if where == "protected":
                        outer = hb; msg = enc(A(B(hb), M(), B(b"pl"), B(b"sg")))
                    else:
                        outer = b"\xa1\x01\x26"; msg = enc(A(B(outer), ("raw", hb), B(b"pl"), B(b"sg")))
                    want = pyspec.sig_structure("CounterSignature", outer, ip, b"aad", b"payload")
                    out.append(case("helperhex", "countersig.tbs", msg, bytes([k]), b"aad", b"payload", fam="countersig-uses-wire-bytes",
                                    impl_only=True, expect="ok " + want.hex()))
    wire_spellings = [b"", b"\xa0", b"\xbf\xff", b"\xb8\x00", b"\xa1\x01\x26", b"\xbf\x01\x26\xff", b"\xa1\x18\x01\x38\x06", b"\xa2\x04\x41\x6b\x01\x26"]
    unprots = [M(), M((I(1), I(-3))), M((I(1), I(-6))), M((I(4), B(b"k")))]
    for p in wire_spellings:
        for u in unprots:
            for style in (None, "nc"):
                m1 = enc(A(B(p), u, B(b"pl"), B(b"sg")), rng if style else None, style="nobignum")
                out.append(case("helperhex", "sign1.tbs_data", m1, b"aad", fam="decoded:sign1.tbs_data", expect="ok " + pyspec.sig_structure("CoseSign1", p, None, b"aad", b"pl").hex()))
                out.append(case("helperhex", "sign1.verify_signature", m1, b"aad", fam="decoded:sign1.verify", expect="ok 7367 " + pyspec.sig_structure("CoseSign1", p, None, b"aad", b"pl").hex()))
                ms = enc(A(B(b"\xa0"), M(), B(b"pl"), A(A(B(p), u, B(b"s0")))), rng if style else None, style="nobignum")
                out.append(case("helperhex", "sign.verify_signature", ms, b"\x00", b"aad", fam="decoded:sign.verify", expect="ok 7330 " + pyspec.sig_structure("CoseSignature", b"\xa0", p, b"aad", b"pl").hex()))
    for p_, pb in product_prots():
        if p_[1][0] != NULL: continue
        aad, pl, k = b"external aad", b"the payload", b"kk"
        hdr = p_[1][1]
        for opn in ("create_signature", "try_create_signature"):
            ops = [A(T("protected"), hdr), A(T("payload"), B(pl)), A(T(opn), B(aad), A(I(0), B(k)))]
            want = k + pyspec.sig_structure("CoseSign1", pb, None, aad, pl)
            out.append(case("build", "CoseSign1", enc(('a', ops)), fam="product:" + opn,
                            check=lambda c, o, w=want: None if ("h" + w.hex()) in o else "signature created over other bytes than the Sig_structure"))
        for opn in ("create_detached_signature", "try_create_detached_signature"):
            ops = [A(T("protected"), hdr), A(T(opn), B(pl), B(aad), A(I(0), B(k)))]
            want = k + pyspec.sig_structure("CoseSign1", pb, None, aad, pl)
            out.append(case("build", "CoseSign1", enc(('a', ops)), fam="product:" + opn,
                            check=lambda c, o, w=want: None if ("h" + w.hex()) in o else "signature created over other bytes than the Sig_structure"))
        sg = d_signature(d_protected(None, hdr), D_EMPTY_HEADER, b"")
        for opn in ("add_created_signature", "try_add_created_signature"):
            ops = [A(T("protected"), hdr), A(T("payload"), B(pl)), A(T(opn), sg, B(aad), A(I(0), B(k)))]
            want = k + pyspec.sig_structure("CoseSignature", pb, pb, aad, pl)
            out.append(case("build", "CoseSign", enc(('a', ops)), fam="product:" + opn,
                            check=lambda c, o, w=want: None if ("h" + w.hex()) in o else "signature created over other bytes than the Sig_structure"))
        for opn in ("add_detached_signature", "try_add_detached_signature"):
            ops = [A(T("protected"), hdr), A(T(opn), sg, B(pl), B(aad), A(I(0), B(k)))]
            want = k + pyspec.sig_structure("CoseSignature", pb, pb, aad, pl)
            out.append(case("build", "CoseSign", enc(('a', ops)), fam="product:" + opn,
                            check=lambda c, o, w=want: None if ("h" + w.hex()) in o else "signature created over other bytes than the Sig_structure"))
    # every byte-string slot of the Sig_structure at every head-width boundary length, one slot at a time and in pairs
    small = (d_protected(None, d_header(kid=b"k")), enc(M((I(4), B(b"k")))))
    for ctx in pyspec.SIG_CTX:
        for L in BOUNDARY_LENS:
            for aad, pl in ((b"a" * L, b"p"), (b"a", b"p" * L), (b"a" * L, b"p" * L)):
                for sign, sb in ((NULL, None), small):
                    want = pyspec.sig_structure(ctx, small[1], sb, aad, pl)
                    out.append(case("sigdata", ctx, enc(small[0]), enc(sign), aad, pl, fam="length-boundaries", expect="ok " + want.hex()))
        for L, d, wire in boundary_prots():
            out.append(case("sigdata", ctx, enc(d), enc(NULL), b"a", b"p", fam="length-boundaries:body", expect="ok " + pyspec.sig_structure(ctx, wire, None, b"a", b"p").hex()))
            out.append(case("sigdata", ctx, enc(small[0]), enc(d), b"a", b"p", fam="length-boundaries:signer", expect="ok " + pyspec.sig_structure(ctx, small[1], wire, b"a", b"p").hex()))
    for L in BOUNDARY_LENS:
        m1 = A(small[0], D_EMPTY_HEADER, B(b"p" * L), B(b"sg")); m1d = A(small[0], D_EMPTY_HEADER, NULL, B(b"sg"))
        w1 = pyspec.sig_structure("CoseSign1", small[1], None, b"aad", b"p" * L)
        out.append(case("helperdesc", "sign1.tbs_data", enc(m1), b"aad", fam="length-boundaries:sign1.tbs_data", expect="ok " + w1.hex()))
        out.append(case("helperdesc", "sign1.tbs_detached_data", enc(m1d), b"p" * L, b"aad", fam="length-boundaries:sign1.tbs_detached", expect="ok " + w1.hex()))
        sigs = ('a', [d_signature(small[0], D_EMPTY_HEADER, b"s0")])
        ws = pyspec.sig_structure("CoseSignature", small[1], small[1], b"aad", b"p" * L)
        out.append(case("helperdesc", "sign.tbs_data", enc(A(small[0], D_EMPTY_HEADER, B(b"p" * L), sigs)), b"aad", b"\x00", fam="length-boundaries:sign.tbs_data", expect="ok " + ws.hex()))
    out += field_population_cases(("sign",))
    out += edited_twins(out)
    out += override_cases(("sign",))
    out += rebuilt_cases(("sign",))
    return out

def post_injective(cases, impl):
    probs = []; seen = {}
    for c, o in zip(cases, impl):
        if "tuple" in c and o.startswith("ok "):
            t = c["tuple"]
            if o in seen and seen[o] != t:
                probs.append((c, o, "two different inputs share these bytes: %r" % (seen[o],)))
            seen[o] = t
    return probs

def cases_C04(rng, tier):
    out = []
    lens = Q(tier, LEN_CLASSES_Q, LEN_CLASSES_T)
    for _ in range(Q(tier, 400, 4000)):
        ctx = rng.choice(list(pyspec.MAC_CTX))
        p, pb = gen_prot_desc(rng)
        aad, pl = blob(rng, lens), blob(rng, lens)
        want = pyspec.mac_structure(ctx, pb, aad, pl)
        out.append(case("macdata", ctx, enc(p), aad, pl, fam="mac_structure_data", expect="ok " + want.hex(), tuple=(ctx, pb, aad, pl)))
    for p, pb in single_field_prots():
        for ctx in pyspec.MAC_CTX:
            want = pyspec.mac_structure(ctx, pb, b"a", b"p")
            out.append(case("macdata", ctx, enc(p), b"a", b"p", fam="single-field-headers", expect="ok " + want.hex(), tuple=(ctx, pb, b"a", b"p")))
    for _ in range(Q(tier, 300, 3000)):
        p, pb = gen_prot_desc(rng)
        aad, pl, tag = blob(rng, lens), blob(rng, lens), rbytes(rng)
        has = rng.random() < 0.75
        if rng.random() < 0.5:
            m = A(p, gen_desc_header(rng, 0), B(pl) if has else NULL, B(tag))
            fn, ctx = "mac0.verify_tag", "CoseMac0"
        else:
            m = A(p, gen_desc_header(rng, 0), B(pl) if has else NULL, B(tag), ('a', [gen_desc_recipient(rng, 0) for _ in range(rng.choice([0, 1]))]))
            fn, ctx = "mac.verify_tag", "CoseMac"
        if has:
            want = pyspec.mac_structure(ctx, pb, aad, pl)
            out.append(case("helperdesc", fn, enc(m), aad, fam=fn, expect="ok %s %s" % (tag.hex(), want.hex())))
        else:
            out.append(case("helperdesc", fn, enc(m), aad, fam=fn + "-nopayload", expect="panic", may_panic=True))
    for p, pb in product_prots():
        aad, pl, tag, k = b"aad", b"payload", b"tg", b"kk"
        for fn, ctx, m in (("mac0.verify_tag", "CoseMac0", A(p, D_EMPTY_HEADER, B(pl), B(tag))),
                           ("mac.verify_tag", "CoseMac", A(p, D_EMPTY_HEADER, B(pl), B(tag), ('a', [])))):
            out.append(case("helperdesc", fn, enc(m), aad, fam="product:" + fn, expect="ok %s %s" % (tag.hex(), pyspec.mac_structure(ctx, pb, aad, pl).hex())))
        if p[1][0] == NULL:      # built headers can also go through the builders
            for bt in ("CoseMac0", "CoseMac"):
                for opn in ("create_tag", "try_create_tag"):
                    ops = [A(T("protected"), p[1][1]), A(T("payload"), B(pl)), A(T(opn), B(aad), A(I(0), B(k)))]
                    want = k + pyspec.mac_structure(bt, pb, aad, pl)
                    out.append(case("build", bt, enc(('a', ops)), fam="product:" + opn,
                                    check=lambda c, o, w=want: None if ("h" + w.hex()) in o else "tag created from other bytes than the MAC_structure"))
    for _ in range(Q(tier, 40, 400)):
        bad = d_protected(None, unencodable_header(rng))
        ctx = rng.choice(list(pyspec.MAC_CTX))
        out.append(case("macdata", ctx, enc(bad), b"a", b"p", fam="unencodable-protected", expect="panic", may_panic=True))
        out.append(case("helperdesc", "mac0.verify_tag", enc(A(bad, D_EMPTY_HEADER, B(b"p"), B(b"t"))), b"a", fam="unencodable-protected", expect="panic", may_panic=True))
        out.append(case("build", "CoseMac0", enc(A(A(T("protected"), unencodable_header(rng)), A(T("payload"), B(b"p")), A(T("create_tag"), B(b"a"), A(I(0), B(b"k"))))),
                        fam="unencodable-protected", expect="panic", may_panic=True))
    for _ in range(Q(tier, 150, 1500)):
        # creation through the builders: the closure echoes what it was given
        p_hdr, pb = builder_header_choice(rng)
        aad, pl, k = blob(rng, lens), blob(rng, lens), rbytes(rng, 2)
        bt, ctx = rng.choice([("CoseMac0", "CoseMac0"), ("CoseMac", "CoseMac")])
        has = rng.random() < 0.8
        with_prot = not (pb == b"" and rng.random() < 0.5)      # an empty protected header may simply never be set
        ops = ([A(T("protected"), p_hdr)] if with_prot else []) + ([A(T("payload"), B(pl))] if has else []) + \
              [A(T(rng.choice(["create_tag", "try_create_tag"])), B(aad), A(I(0), B(k)))]
        if has:
            want = k + pyspec.mac_structure(ctx, pb, aad, pl)
            out.append(case("build", bt, enc(('a', ops)), fam="create_tag", check=lambda c, o, w=want: None if ("h" + w.hex()) in o else "tag created from other bytes than the MAC_structure"))
        else:
            out.append(case("build", bt, enc(('a', ops)), fam="create_tag-nopayload", expect="panic", may_panic=True))
    wire_spellings = [b"", b"\xa0", b"\xbf\xff", b"\xb8\x00", b"\xa1\x01\x26", b"\xbf\x01\x26\xff", b"\xa1\x18\x01\x38\x06", b"\xa2\x04\x41\x6b\x01\x26"]
    unprots = [M(), M((I(1), I(-3))), M((I(1), I(-6))), M((I(4), B(b"k")))]
    for p in wire_spellings:
        for u in unprots:
            for style in (None, "nc"):
                m0 = enc(A(B(p), u, B(b"pl"), B(b"tg")), rng if style else None, style="nobignum")
                m1 = enc(A(B(p), u, B(b"pl"), B(b"tg"), A(A(B(b"\xa0"), M(), NULL))), rng if style else None, style="nobignum")
                out.append(case("helperhex", "mac0.verify_tag", m0, b"aad", fam="decoded:mac0.verify_tag", expect="ok 7467 " + pyspec.mac_structure("CoseMac0", p, b"aad", b"pl").hex()))
                out.append(case("helperhex", "mac.verify_tag", m1, b"aad", fam="decoded:mac.verify_tag", expect="ok 7467 " + pyspec.mac_structure("CoseMac", p, b"aad", b"pl").hex()))
    small = (d_protected(None, d_header(kid=b"k")), enc(M((I(4), B(b"k")))))
    for ctx in pyspec.MAC_CTX:
        for L in BOUNDARY_LENS:
            for aad, pl in ((b"a" * L, b"p"), (b"a", b"p" * L), (b"a" * L, b"p" * L)):
                out.append(case("macdata", ctx, enc(small[0]), aad, pl, fam="length-boundaries", expect="ok " + pyspec.mac_structure(ctx, small[1], aad, pl).hex()))
        for L, d, wire in boundary_prots():
            out.append(case("macdata", ctx, enc(d), b"a", b"p", fam="length-boundaries:protected", expect="ok " + pyspec.mac_structure(ctx, wire, b"a", b"p").hex()))
    out += field_population_cases(("mac",))
    out += edited_twins(out)
    out += override_cases(("mac",))
    out += rebuilt_cases(("mac",))
    return out

def cases_C05(rng, tier):
    out = []
    lens = Q(tier, LEN_CLASSES_Q, LEN_CLASSES_T)
    for _ in range(Q(tier, 400, 4000)):
        ctx = rng.choice(list(pyspec.ENC_CTX))
        p, pb = gen_prot_desc(rng)
        aad = blob(rng, lens)
        want = pyspec.enc_structure(ctx, pb, aad)
        out.append(case("encdata", ctx, enc(p), aad, fam="enc_structure_data", expect="ok " + want.hex(), tuple=(ctx, pb, aad)))
    for p, pb in single_field_prots():
        for ctx in pyspec.ENC_CTX:
            want = pyspec.enc_structure(ctx, pb, b"a")
            out.append(case("encdata", ctx, enc(p), b"a", fam="single-field-headers", expect="ok " + want.hex(), tuple=(ctx, pb, b"a")))
    for _ in range(Q(tier, 300, 3000)):
        p, pb = gen_prot_desc(rng)
        aad, ct = blob(rng, lens), rbytes(rng)
        has = rng.random() < 0.75
        which = rng.choice(["encrypt", "encrypt0", "recipient"])
        if which == "encrypt":
            m = A(p, gen_desc_header(rng, 0), B(ct) if has else NULL, ('a', []))
            args, ctx = (aad,), "CoseEncrypt"
        elif which == "encrypt0":
            m = A(p, gen_desc_header(rng, 0), B(ct) if has else NULL)
            args, ctx = (aad,), "CoseEncrypt0"
        else:
            m = A(p, gen_desc_header(rng, 0), B(ct) if has else NULL, ('a', []))
            ctx = rng.choice(list(pyspec.ENC_CTX))
            args = (tstr(ctx), aad)
        fn = which + ".decrypt"
        bad_ctx = which == "recipient" and ctx in ("CoseEncrypt", "CoseEncrypt0")
        if has and not bad_ctx:
            want = pyspec.enc_structure(ctx, pb, aad)
            out.append(case("helperdesc", fn, enc(m), *args, fam=fn, expect="ok %s %s" % (ct.hex(), want.hex())))
        else:
            out.append(case("helperdesc", fn, enc(m), *args, fam=fn + "-refused", expect="panic", may_panic=True))
    for _ in range(Q(tier, 40, 400)):
        bad = d_protected(None, unencodable_header(rng))
        ctx = rng.choice(list(pyspec.ENC_CTX))
        out.append(case("encdata", ctx, enc(bad), b"a", fam="unencodable-protected", expect="panic", may_panic=True))
        out.append(case("helperdesc", "encrypt0.decrypt", enc(A(bad, D_EMPTY_HEADER, B(b"c"))), b"a", fam="unencodable-protected", expect="panic", may_panic=True))
    for p, pb in product_prots():
        aad, ct, pt, k = b"aad", b"ct", b"pt", b"kk"
        out.append(case("helperdesc", "encrypt0.decrypt", enc(A(p, D_EMPTY_HEADER, B(ct))), aad, fam="product:encrypt0.decrypt",
                        expect="ok %s %s" % (ct.hex(), pyspec.enc_structure("CoseEncrypt0", pb, aad).hex())))
        out.append(case("helperdesc", "encrypt.decrypt", enc(A(p, D_EMPTY_HEADER, B(ct), ('a', []))), aad, fam="product:encrypt.decrypt",
                        expect="ok %s %s" % (ct.hex(), pyspec.enc_structure("CoseEncrypt", pb, aad).hex())))
        for rc in pyspec.ENC_CTX:
            m = A(p, D_EMPTY_HEADER, B(ct), ('a', []))
            if rc in ("CoseEncrypt", "CoseEncrypt0"):
                out.append(case("helperdesc", "recipient.decrypt", enc(m), tstr(rc), aad, fam="product:recipient.decrypt-refused", expect="panic", may_panic=True))
            else:
                out.append(case("helperdesc", "recipient.decrypt", enc(m), tstr(rc), aad, fam="product:recipient.decrypt",
                                expect="ok %s %s" % (ct.hex(), pyspec.enc_structure(rc, pb, aad).hex())))
        if p[1][0] == NULL:
            for opn in ("create_ciphertext", "try_create_ciphertext"):
                for bt in ("CoseEncrypt", "CoseEncrypt0"):
                    ops = [A(T("protected"), p[1][1]), A(T(opn), B(pt), B(aad), A(I(0), B(k)))]
                    want = k + bytes([len(pt)]) + pt + pyspec.enc_structure(bt, pb, aad)
                    out.append(case("build", bt, enc(('a', ops)), fam="product:" + opn,
                                    check=lambda c, o, w=want: None if ("h" + w.hex()) in o else "ciphertext created with other additional data than the Enc_structure"))
                for rc in pyspec.ENC_CTX:
                    ops = [A(T("protected"), p[1][1]), A(T(opn), T(rc), B(pt), B(aad), A(I(0), B(k)))]
                    if rc in ("CoseEncrypt", "CoseEncrypt0"):
                        out.append(case("build", "CoseRecipient", enc(('a', ops)), fam="product:" + opn + "-refused", expect="panic", may_panic=True))
                    else:
                        want = k + bytes([len(pt)]) + pt + pyspec.enc_structure(rc, pb, aad)
                        out.append(case("build", "CoseRecipient", enc(('a', ops)), fam="product:" + opn,
                                        check=lambda c, o, w=want: None if ("h" + w.hex()) in o else "ciphertext created with other additional data than the Enc_structure"))
    for _ in range(Q(tier, 250, 2500)):
        p_hdr, pb = builder_header_choice(rng)
        aad, pt, k = blob(rng, lens), rbytes(rng), rbytes(rng, 2)
        bt = rng.choice(["CoseEncrypt", "CoseEncrypt0", "CoseRecipient", "CoseRecipient"])
        name = rng.choice(["create_ciphertext", "try_create_ciphertext"])
        with_prot = not (pb == b"" and rng.random() < 0.5)
        pre = [A(T("protected"), p_hdr)] if with_prot else []
        if bt == "CoseRecipient":
            ctx = rng.choice(list(pyspec.ENC_CTX))
            ops = pre + [A(T(name), T(ctx), B(pt), B(aad), A(I(0), B(k)))]
        else:
            ctx = bt
            ops = pre + [A(T(name), B(pt), B(aad), A(I(0), B(k)))]
        if bt == "CoseRecipient" and ctx in ("CoseEncrypt", "CoseEncrypt0"):
            out.append(case("build", bt, enc(('a', ops)), fam="create_ciphertext-refused", expect="panic", may_panic=True))
        else:
            want = k + bytes([len(pt) % 256]) + pt + pyspec.enc_structure(ctx, pb, aad)
            out.append(case("build", bt, enc(('a', ops)), fam="create_ciphertext",
                            check=lambda c, o, w=want: None if ("h" + w.hex()) in o else "ciphertext created with other additional data than the Enc_structure"))
    wire_spellings = [b"", b"\xa0", b"\xbf\xff", b"\xb8\x00", b"\xa1\x01\x26", b"\xbf\x01\x26\xff", b"\xa1\x18\x01\x38\x06", b"\xa2\x04\x41\x6b\x01\x26"]
    unprots = [M(), M((I(1), I(-3))), M((I(1), I(-6))), M((I(4), B(b"k")))]
    for p in wire_spellings:
        for u in unprots:
            for style in (None, "nc"):
                e0 = enc(A(B(p), u, B(b"ct")), rng if style else None, style="nobignum")
                e1 = enc(A(B(b"\xa0"), M(), B(b"ct"), A(A(B(p), u, B(b"ct")))), rng if style else None, style="nobignum")
                out.append(case("helperhex", "encrypt0.decrypt", e0, b"aad", fam="decoded:encrypt0.decrypt", expect="ok 6374 " + pyspec.enc_structure("CoseEncrypt0", p, b"aad").hex()))
                out.append(case("helperhex", "encrypt.decrypt", enc(A(B(p), u, B(b"ct"), A())), b"aad", fam="decoded:encrypt.decrypt", expect="ok 6374 " + pyspec.enc_structure("CoseEncrypt", p, b"aad").hex()))
                for rc in ("EncRecipient", "MacRecipient", "RecRecipient"):
                    out.append(case("helperhex", "recipient.decrypt", e0, tstr(rc), b"aad", fam="decoded:recipient.decrypt", expect="ok 6374 " + pyspec.enc_structure(rc, p, b"aad").hex()))
    small = (d_protected(None, d_header(kid=b"k")), enc(M((I(4), B(b"k")))))
    for ctx in pyspec.ENC_CTX:
        for L in BOUNDARY_LENS:
            out.append(case("encdata", ctx, enc(small[0]), b"a" * L, fam="length-boundaries", expect="ok " + pyspec.enc_structure(ctx, small[1], b"a" * L).hex()))
        for L, d, wire in boundary_prots():
            out.append(case("encdata", ctx, enc(d), b"a", fam="length-boundaries:protected", expect="ok " + pyspec.enc_structure(ctx, wire, b"a").hex()))
    out += field_population_cases(("enc",))
    out += edited_twins(out)
    out += override_cases(("enc",))
    out += rebuilt_cases(("enc",))
    return out


# ================================================================= C07
SHORT_BIGNUM_RE = re.compile(r"g0x[23]\(h(?:[0-9a-f]{2}){0,16}\)")

def f4_family(rng):
    """tag 2/3 over an indefinite-length byte string of <= 16 bytes (ciborium quirk, finding F4)"""
    body = rbytes(rng, rng.choice([0, 1, 2, 8, 16]))
    t = rng.choice([2, 3])
    inner = bytes([0xc0 + t, 0x5f]) + head(2, len(body)) + body + b"\xff"
    return inner

def cases_C07(rng, tier):
    out = []
    inputs = corpus(rng, Q(tier, 700, 8000))
    inputs += [(ty, mutate(rng, b)) for ty, b in corpus(rng, Q(tier, 300, 4000))]
    # non-canonical things whose re-encoding differs from the input
    for _ in range(Q(tier, 60, 600)):
        inputs.append(("CoseRecipient", enc(A(B(b""), M(), NULL, A()))))                      # 4-element recipient, empty list
        inputs.append(("CoseKey", enc(M((I(1), I(2)), (I(4), ('a', [I(x) for x in rng.sample(KOP_REG, 3)]))))))   # key_ops order
        inputs.append(("Header", enc(M((I(rng.choice([0, 9, -70000])), I(rng.choice(LATTICE)))), rng)))
        inputs.append(("Value", enc(gen_value(rng, 4), rng)))
    # ill-formed inputs (one or two rule violations, as in C08/C10/C18): whatever IS accepted must survive the round
    # trip, so an input that should have been rejected but is not shows up here as well
    for _ in range(Q(tier, 250, 3000)):
        k = rng.random()
        if k < 0.5:
            hb = enc(('m', gen_header_entries(rng, 1, rng.choice([1, 1, 2]))), rng if rng.random() < 0.5 else None)
            inputs.append(("Header", hb))
            inputs.append(rng.choice([("CoseSign1", enc(A(B(b""), ("raw", hb), NULL, B(b"")))), ("CoseMac0", enc(A(B(hb), M(), NULL, B(b"")))),
                                      ("CoseRecipient", enc(A(B(b""), ("raw", hb), NULL))), ("ProtectedHeader", hb)]))
        elif k < 0.75:
            inputs.append(("CoseKey", enc(('m', gen_key_entries(rng, rng.choice([1, 2]))), rng if rng.random() < 0.5 else None)))
        else:
            inputs.append(("ClaimsSet", enc(('m', gen_claims_entries(rng, rng.choice([1, 2]))), rng if rng.random() < 0.5 else None)))
    for a, b in (((5, B(b"\x01\x02")), (6, B(b"\x03"))), ((6, B(b"\x03")), (5, B(b"\x01\x02")))):
        for extra in ([], [(I(4), B(b"k"))], [(I(1), I(-7)), (T("x"), I(1))]):
            for posn in range(len(extra) + 1):
                hb = enc(('m', [(I(a[0]), a[1])] + extra[:posn] + [(I(b[0]), b[1])] + extra[posn:]))
                inputs += [("Header", hb), ("CoseEncrypt0", enc(A(B(b""), ("raw", hb), NULL))), ("CoseSign", enc(A(B(b""), M(), NULL, A(A(B(b""), ("raw", hb), B(b""))))))]
    for ty, b in inputs:
        out.append(case("dec", ty, b, fam="dec", key=(ty, b)))
        out.append(case("rt", ty, b, fam="rt", key=(ty, b)))
        if ty in TAGGED_TYPES:
            tb = head(6, MSG_TAG[ty]) + b
            out.append(case("dectag", ty, tb, fam="dec", key=(ty, tb)))
            out.append(case("rttag", ty, tb, fam="rttag", key=(ty, tb)))
    for _ in range(Q(tier, 20, 200)):
        v = f4_family(rng)
        for ty, b in (("Value", v), ("Header", head(5, 1) + enc(I(99)) + v), ("CoseKey", head(5, 2) + b"\x01\x01" + enc(I(-1)) + v)):
            out.append(case("dec", ty, b, fam="dec", key=(ty, b)))
            out.append(case("rt", ty, b, fam="rt-f4", key=(ty, b)))
    for f in (combos.header_combo_cases, combos.key_combo_cases, combos.claims_combo_cases, combos.kdf_combo_cases, combos.msg_combo_cases):
        out += [c for c in f(case, 3) if '-rt' in c['fam']]
    # legal but deep nesting in every free-form position, around every plausible smaller recursion limit
    # (ciborium's own is 256; the proved model decides each depth)
    for d in (6, 7, 8, 9, 15, 16, 17, 31, 32, 33, 63, 64, 65, 127, 128, 129, 200, 250, 253, 254, 255, 256):
        deep = b"\x81" * d + b"\x00"
        deepm = b"".join(b"\xa1\x00" for _ in range(d)) + b"\x00"
        for inner in (deep, deepm):
            for ty, b in (("Header", b"\xa1\x18\x63" + inner), ("CoseKey", b"\xa2\x01\x04\x20" + inner), ("ClaimsSet", b"\xa1\x18\x63" + inner),
                          ("CoseSign1", b"\x84\x40\xa1\x18\x63" + inner + b"\xf6\x40"), ("CoseEncrypt0", b"\x83" + enc(B(b"\xa1\x18\x63" + inner)) + b"\xa0\xf6"),
                          ("CoseMac", b"\x85\x40\xa0\xf6\x40\x81\x83\x40\xa1\x18\x63" + inner + b"\xf6")):
                out.append(case("dec", ty, b, fam="depth-sweep", key=(ty, b)))
                out.append(case("rt", ty, b, fam="depth-sweep-rt", key=(ty, b)))
                if ty in TAGGED_TYPES:
                    out.append(case("dectag", ty, head(6, MSG_TAG[ty]) + b, fam="depth-sweep-tagged"))
    for d in list(range(0, 19)):
        for form in ("single", "list", "mixed", "list2"):
            hb = nested_header(d, form)
            for ty, b in (("Header", hb), ("CoseSign1", enc(A(B(b""), ("raw", hb), NULL, B(b"")))), ("CoseSign1", enc(A(B(hb), M(), NULL, B(b"")))),
                          ("CoseSign", enc(A(B(b""), M(), NULL, A(A(B(b""), ("raw", hb), B(b"")))))), ("CoseMac", enc(A(B(b""), M(), NULL, B(b""), A(A(B(b""), ("raw", hb), NULL)))))):
                out.append(case("dec", ty, b, fam="dec", key=(ty, b)))
                out.append(case("rt", ty, b, fam="rt", key=(ty, b)))
                if ty in TAGGED_TYPES:
                    out.append(case("rttag", ty, head(6, MSG_TAG[ty]) + b, fam="rttag", key=(ty, head(6, MSG_TAG[ty]) + b)))
                    out.append(case("dectag", ty, head(6, MSG_TAG[ty]) + b, fam="dec", key=(ty, head(6, MSG_TAG[ty]) + b)))
    for name, ty, b, n in width_sweep():
        out.append(case("rt", ty, b, fam="width-sweep:" + name, **({"expect_re": r"ok [0-9a-f]+ T T"} if n >= 1 else {})))
    out += [c for c in value_kind_cases(("Header", "CoseKey", "ClaimsSet")) if c["line"].startswith("rt ")]
    out += [c for c in depth_sweep_cases(("Header", "CoseKey", "CoseKeySet", "ClaimsSet", "CoseSign1", "CoseEncrypt0", "CoseMac", "CoseSign")) if not c["line"].startswith("dec ")]
    out += protected_nesting_cases(ops=("rt",))
    out += [c for c in text_sweep_cases(("ClaimsSet", "Header", "CoseKey")) if c["line"].startswith("rt ")]
    out += [c for c in registered_extra_cases(("Header", "CoseKey", "ClaimsSet")) if c["line"].startswith("rt ")]
    # every input of the duplicate-label families (C12) through the round trip as well: whatever is accepted re-encodes
    for c in cases_C12(random_from(rng), "quick"):
        if c["line"].startswith("dec "):
            out.append({"line": "rt " + c["line"][4:], "fam": "rt-of-dup-families"})
    return out

def post_C07(cases, impl):
    probs = []
    decs = {}
    for c, o in zip(cases, impl):
        if c["fam"] == "dec": decs[c["key"]] = o
    for c, o in zip(cases, impl):
        if not c["fam"].startswith("rt"): continue
        if o.startswith("rej"): continue
        if re.fullmatch(r"ok [0-9a-f]* T T", o) or o == "ok  T T": continue
        d = decs.get(c.get("key"), "")
        if SHORT_BIGNUM_RE.search(d):
            c["short_bignum"] = True
        probs.append((c, o, "decode/encode does not reach a fixed point in one step (decoded: %s)" % d[:160]))
    return probs

# ================================================================= C08
def cases_C08(rng, tier):
    out = []
    n = Q(tier, 900, 12000)
    gid = 0
    for i in range(n):
        r = rng.random()
        faults = 0 if r < 0.45 else 1 if r < 0.85 else rng.choice([2, 3])
        entries = gen_header_entries(rng, 2, faults)
        m = ('m', entries)
        gid += 1
        encs = [enc(m)] + [enc(m, rng) for _ in range(2)]
        for e in encs:
            out.append(case("dec", "Header", e, fam="standalone(f=%d)" % faults, group=("hdr", gid)))
        pos = rng.random()
        if pos < 0.3:
            out.append(case("dec", "CoseSign1", enc(A(B(b""), ("raw", encs[1]), NULL, B(b""))), fam="unprotected(f=%d)" % faults))
        elif pos < 0.6:
            out.append(case("dec", "CoseSign1", enc(A(B(encs[2]), M(), NULL, B(b""))), fam="protected(f=%d)" % faults))
        elif pos < 0.7:
            out.append(case("dec", "ProtectedHeader", encs[1], fam="ProtectedHeader(f=%d)" % faults))
    # rule interactions: IV / Partial IV in both orders, with other entries around
    for a, b in (((5, B(b"\x01")), (6, B(b"\x02"))), ((6, B(b"\x02")), (5, B(b"\x01")))):
        for extra in ([], [(I(4), B(b"k"))], [(T("x"), I(1))]):
            for posn in range(len(extra) + 1):
                es = [(I(a[0]), a[1])] + extra[:posn] + [(I(b[0]), b[1])] + extra[posn:]
                out.append(case("dec", "Header", enc(('m', es)), fam="iv-clash", expect_re=r"err:\w+"))
    # registry-typed fields at the boundaries of their registries (assigned neighbours, private-use edge),
    # exhaustively over the palettes: alone in the map, and in the protected slot of a message
    ok_priv = lambda v: v < -65536
    for v in sorted(set(ALG_REG + ALG_PRIV + ALG_BAD + [-65535, -65536, -65537, -65538, -6, -5, 0, 7, 8, 24, 25, 26, 27])):
        hb = enc(M((I(1), I(v))))
        out.append(case("dec", "Header", hb, fam="alg-palette", **({"expect_re": r"ok .*"} if ok_priv(v) else {})))
        out.append(case("dec", "CoseMac0", enc(A(B(hb), M(), NULL, B(b""))), fam="alg-palette-protected"))
    for v in sorted(set(HP_BAD + [1, 2, 7, 8, 9, 10, 11, 256, 257, -65535, -65536, -65537, 0])):
        out.append(case("dec", "Header", enc(M((I(2), A(I(v))))), fam="crit-palette", **({"expect_re": r"err:\w+"} if v < 0 else {})))
    for v in sorted(set(CF_BAD + [0, 16, 17, 18, 40, 41, 42, 60, 61, 62, 63, 64, 65535, 65536, -65536, -65537, 10000, 11542, 11543])):
        out.append(case("dec", "Header", enc(M((I(3), I(v)))), fam="content-format-palette", **({"expect_re": r"err:\w+"} if v < 0 else {})))
    # content-type palette exhaustively
    for t in CT_TEXT_OK:
        out.append(case("dec", "Header", enc(M((I(3), T(t)))), fam="content-type-ok", expect_re=r"ok .*"))
    for t in CT_TEXT_BAD:
        out.append(case("dec", "Header", enc(M((I(3), T(t)))), fam="content-type-bad", expect_re=r"err:\w+"))
    out += combos.header_combo_cases(case, 1) + (combos.header_combo_cases(case, 2) if tier != 'quick' else [])
    # every variable-length position filled with n well-formed entries (no CDDL upper bound on any of them)
    for name, ty, b, n in width_sweep(("Header", "CoseSign1", "CoseMac0")):
        out.append(case("dec", ty, b, fam="width-sweep:" + name, **({"expect_re": r"ok .*"} if n >= 1 else {})))
    out += value_kind_cases(("Header",))
    out += [c for c in wrapped_body_cases(rng) if c["line"].split()[1] == "Header"]
    out += depth_sweep_cases(("Header", "CoseSign1", "CoseEncrypt0", "CoseMac", "CoseSign"))
    out += protected_nesting_cases()
    out += typed_field_kind_cases(("Header",))
    out += text_sweep_cases(("Header",))
    out += cross_bucket_cases(rng)
    out += registered_extra_cases(("Header",))
    return out

def post_groups(cases, impl):
    """every encoding of one data-model value must give the same outcome"""
    probs = []; first = {}
    for c, o in zip(cases, impl):
        g = c.get("group")
        if g is None: continue
        if g in first and norm(first[g][1]) != norm(o):
            probs.append((c, o, "outcome depends on the encoding: another encoding (%s) gave %s" % (first[g][0]["line"][:120], first[g][1][:160])))
        first.setdefault(g, (c, o))
    return probs

# ================================================================= C09
def cases_C09(rng, tier):
    out = []
    gid = 0
    for _ in range(Q(tier, 500, 6000)):
        ty = rng.choice(MSG_TYPES)
        items = gen_msg_items(rng, ty, 2)
        r = rng.random()
        if r < 0.45: pass
        elif r < 0.85: items = fault_msg_items(rng, items)
        else: items = fault_msg_items(rng, fault_msg_items(rng, items))
        m = ('a', items)
        b = enc(m, rng if rng.random() < 0.5 else None)
        # several types share a shape: decode the same bytes as every type
        for t2 in MSG_TYPES:
            out.append(case("dec", t2, b, fam="%s-as-%s" % (ty, t2) if tier != "quick" else "shape:" + t2))
    # arity sweep 0..7 with every kind in every slot
    for ty in MSG_TYPES:
        good = gen_msg_items(rng, ty, 1)
        for arity in range(0, 8):
            items = (good + [B(b"")] * 8)[:arity]
            out.append(case("dec", ty, enc(('a', items)), fam="arity"))
        for slot in range(len(good)):
            for wk in WRONG_KINDS:
                items = list(good); items[slot] = wk
                out.append(case("dec", ty, enc(('a', items)), fam="slot-kind"))
        for wk in WRONG_KINDS:
            out.append(case("dec", ty, enc(wk), fam="not-an-array"))
    # the protected slot: empty, or EXACTLY one encoded well-formed header map
    for _ in range(Q(tier, 60, 600)):
        h = enc(gen_header_map(rng, 1), rng if rng.random() < 0.5 else None)
        junk = rng.choice([b"\x00", b"\x18", b"\x19\x01", b"\x41", b"\xa0", b"\xff", b"\x81", rbytes(rng, 2) or b"\x01", h])
        variants = [(h, True), (h + junk, False), (b"", True)]
        if len(h) > 1: variants.append((h[:-1], False))
        for ty in MSG_TYPES:
            good = gen_msg_items(rng, ty, 1)
            for pb, ok in variants:
                items = list(good); items[0] = B(pb)
                items[1] = M()
                out.append(case("dec", ty, enc(('a', items)), fam="protected-slot",
                                **({} if ok else {"expect_re": r"err:\w+"})))
        # nested positions: signer of a COSE_Sign, recipient of a COSE_Mac, counter-signature
        for pb, ok in variants:
            kw = {} if ok else {"expect_re": r"err:\w+"}
            out.append(case("dec", "CoseSign", enc(A(B(b""), M(), NULL, A(A(B(pb), M(), B(b"s"))))), fam="protected-slot-nested", **kw))
            out.append(case("dec", "CoseMac", enc(A(B(b""), M(), NULL, B(b""), A(A(B(b""), M(), NULL, A(A(B(pb), M(), NULL)))))), fam="protected-slot-nested", **kw))
            out.append(case("dec", "CoseSign1", enc(A(B(b""), M((I(7), A(B(pb), M(), B(b"c")))), NULL, B(b""))), fam="protected-slot-nested", **kw))
    # nested recipients to depth 3 with a fault at the bottom
    for _ in range(Q(tier, 40, 400)):
        bad = rng.random() < 0.5
        leaf = A(B(b""), M(), NULL) if not bad else rng.choice([A(B(b""), M()), A(B(b""), I(1), NULL), A(M(), M(), NULL), A(B(b"\x01"), M(), NULL)])
        r2 = A(B(b""), M(), NULL, A(leaf)); r1 = A(B(b""), M(), B(b"c"), A(r2))
        out.append(case("dec", "CoseMac", enc(A(B(b""), M(), NULL, B(b""), A(r1))), fam="nested-recipient",
                        expect_re=(r"err:\w+" if bad else r"ok .*")))
        out.append(case("dec", "CoseEncrypt", enc(A(B(b""), M(), NULL, A(r1))), fam="nested-recipient",
                        expect_re=(r"err:\w+" if bad else r"ok .*")))
    out += combos.msg_combo_cases(case, 1) + (combos.msg_combo_cases(case, 2) if tier != 'quick' else [])
    # legal but deep nesting in every free-form position, around every plausible smaller recursion limit
    # (ciborium's own is 256; the proved model decides each depth)
    for d in (6, 7, 8, 9, 15, 16, 17, 31, 32, 33, 63, 64, 65, 127, 128, 129, 200, 250, 253, 254, 255, 256):
        deep = b"\x81" * d + b"\x00"
        deepm = b"".join(b"\xa1\x00" for _ in range(d)) + b"\x00"
        for inner in (deep, deepm):
            for ty, b in (("Header", b"\xa1\x18\x63" + inner), ("CoseKey", b"\xa2\x01\x04\x20" + inner), ("ClaimsSet", b"\xa1\x18\x63" + inner),
                          ("CoseSign1", b"\x84\x40\xa1\x18\x63" + inner + b"\xf6\x40"), ("CoseEncrypt0", b"\x83" + enc(B(b"\xa1\x18\x63" + inner)) + b"\xa0\xf6"),
                          ("CoseMac", b"\x85\x40\xa0\xf6\x40\x81\x83\x40\xa1\x18\x63" + inner + b"\xf6")):
                out.append(case("dec", ty, b, fam="depth-sweep", key=(ty, b)))
                out.append(case("rt", ty, b, fam="depth-sweep-rt", key=(ty, b)))
                if ty in TAGGED_TYPES:
                    out.append(case("dectag", ty, head(6, MSG_TAG[ty]) + b, fam="depth-sweep-tagged"))
    # every variable-length position filled with n well-formed entries (no CDDL upper bound on any of them)
    for name, ty, b, n in width_sweep(("CoseSign", "CoseMac", "CoseEncrypt", "CoseRecipient", "CoseSign1", "CoseMac0")):
        out.append(case("dec", ty, b, fam="width-sweep:" + name, **({"expect_re": r"ok .*"} if n >= 1 else {})))
    out += [c for c in wrapped_body_cases(rng) if c["line"].split()[1] in MSG_TYPES]
    out += [c for c in protected_nesting_cases() if c["line"].split()[1] in MSG_TYPES]
    # every byte-string slot (protected, payload / ciphertext, signature / tag) holding a TAGGED byte string, for every
    # tag class: a tagged item is not a byte string, whatever the tag promises about its content
    for ty in MSG_TYPES:
        good = gen_msg_items(rng, ty, 1)
        for slot in range(len(good)):
            v = good[slot]
            if v[0] not in ('b', 'N'): continue
            for val in ([v] if v[0] == 'b' else []) + [B(b""), B(b"\x01\x02"), B(b"\xa0")]:
                for t in (0, 1, 2, 3, 4, 5, 16, 17, 18, 21, 22, 23, 24, 25, 32, 33, 34, 35, 36, 37, 61, 96, 97, 98, 55799, 2**32, 2**64 - 1):
                    if slot == 0 and val[1] not in (b"", b"\xa0"): continue
                    items = list(good); items[slot] = G(t, val)
                    out.append(case("dec", ty, enc(('a', items)), fam="tagged-bstr-in-slot", expect_re=r"err:\w+"))
                    if ty == "CoseSign":
                        out.append(case("dec", ty, enc(A(B(b""), M(), NULL, A(A(G(t, B(b"")), M(), B(b"s"))))), fam="tagged-bstr-in-nested-slot", expect_re=r"err:\w+"))
                        out.append(case("dec", ty, enc(A(B(b""), M(), NULL, A(A(B(b""), M(), G(t, B(b"s")))))), fam="tagged-bstr-in-nested-slot", expect_re=r"err:\w+"))
    out += [c for c in cross_bucket_cases(rng) if c["line"].split()[1] in MSG_TYPES]
    # lists of signers / recipients in which ONE entry names each registered algorithm (either bucket, either position):
    # a list is accepted iff each entry is, whatever the entries say about each other
    import tables as _tb
    for v in sorted(_tb.REG["Algorithm"]) + [-65537]:
        for prot in (False, True):
            for idx in (0, 1):
                def entry(i, kind):
                    h = M((I(1), I(v))) if i == idx else M((I(1), I(-3)), (I(4), B(b"k")))
                    p_, u_ = (B(enc(h)), M()) if prot else (B(b""), h)
                    return A(p_, u_, B(b"s")) if kind == "sig" else A(p_, u_, B(b"ct"))
                recs = A(entry(0, "rec"), entry(1, "rec")); sigs = A(entry(0, "sig"), entry(1, "sig"))
                out.append(case("dec", "CoseEncrypt", enc(A(B(b""), M(), B(b"c"), recs)), fam="list-with-alg:CoseEncrypt", expect_re=r"ok .*"))
                out.append(case("dec", "CoseMac", enc(A(B(b""), M(), NULL, B(b"t"), recs)), fam="list-with-alg:CoseMac", expect_re=r"ok .*"))
                out.append(case("dec", "CoseRecipient", enc(A(B(b""), M(), NULL, recs)), fam="list-with-alg:CoseRecipient", expect_re=r"ok .*"))
                out.append(case("dec", "CoseSign", enc(A(B(b""), M(), NULL, sigs)), fam="list-with-alg:CoseSign", expect_re=r"ok .*"))
                out.append(case("dec", "Header", enc(M((I(7), sigs))), fam="list-with-alg:countersignatures", expect_re=r"ok .*"))
    return out

# ================================================================= C10
def cases_C10(rng, tier):
    out = []
    gid = 0
    for _ in range(Q(tier, 1200, 15000)):
        r = rng.random()
        faults = 0 if r < 0.45 else 1 if r < 0.85 else 2
        entries = gen_key_entries(rng, faults, kty=rng.random() < 0.92)
        m = ('m', entries); gid += 1
        for e in (enc(m), enc(m, rng)):
            out.append(case("dec", "CoseKey", e, fam="key(f=%d)" % faults, group=("key", gid)))
    for _ in range(Q(tier, 200, 2500)):
        ks = [('m', gen_key_entries(rng, 1 if rng.random() < 0.25 else 0)) for _ in range(rng.choice([0, 1, 2, 3]))]
        out.append(case("dec", "CoseKeySet", enc(('a', ks), rng), fam="keyset"))
    for wk in WRONG_KINDS:
        out.append(case("dec", "CoseKeySet", enc(wk), fam="keyset-kind"))
        out.append(case("dec", "CoseKey", enc(wk), fam="key-kind"))
        out.append(case("dec", "CoseKeySet", enc(A(M((I(1), I(1))), wk)), fam="keyset-element-kind"))
    out += combos.key_combo_cases(case, 1) + (combos.key_combo_cases(case, 2) if tier != 'quick' else [])
    # every variable-length position filled with n well-formed entries (no CDDL upper bound on any of them)
    for name, ty, b, n in width_sweep(("CoseKey", "CoseKeySet")):
        out.append(case("dec", ty, b, fam="width-sweep:" + name, **({"expect_re": r"ok .*"} if n >= 1 else {})))
    out += value_kind_cases(("CoseKey",))
    out += [c for c in wrapped_body_cases(rng) if c["line"].split()[1] in ("CoseKey", "CoseKeySet")]
    out += depth_sweep_cases(("CoseKey", "CoseKeySet"))
    out += typed_field_kind_cases(("CoseKey",))
    out += text_sweep_cases(("CoseKey",))
    out += registered_extra_cases(("CoseKey",))
    return out

# ================================================================= C18
def cases_C18(rng, tier):
    out = []
    gid = 0
    for _ in range(Q(tier, 900, 10000)):
        r = rng.random()
        faults = 0 if r < 0.5 else 1 if r < 0.88 else 2
        m = ('m', gen_claims_entries(rng, faults)); gid += 1
        for e in (enc(m), enc(m, rng)):
            out.append(case("dec", "ClaimsSet", e, fam="claims(f=%d)" % faults, group=("cwt", gid)))
    for _ in range(Q(tier, 500, 6000)):
        fault = rng.random() < 0.5
        out.append(case("dec", "CoseKdfContext", enc(('a', gen_kdf_items(rng, fault)), rng), fam="kdf(fault=%s)" % fault))
        out.append(case("dec", "PartyInfo", enc(('a', gen_party_items(rng, fault)), rng), fam="party(fault=%s)" % fault))
        out.append(case("dec", "SuppPubInfo", enc(('a', gen_supp_items(rng, fault)), rng), fam="supp(fault=%s)" % fault))
    for ar in range(0, 8):
        out.append(case("dec", "CoseKdfContext", enc(('a', ([I(1), A(NULL, NULL, NULL), A(NULL, NULL, NULL), A(I(128), B(b""))] + [B(b"x")] * 4)[:ar])), fam="kdf-arity"))
        out.append(case("dec", "PartyInfo", enc(('a', [NULL] * ar)), fam="party-arity"))
        out.append(case("dec", "SuppPubInfo", enc(('a', ([I(1), B(b"")] + [B(b"o")] * 6)[:ar])), fam="supp-arity"))
    for ty in ("ClaimsSet", "PartyInfo", "SuppPubInfo", "CoseKdfContext"):
        for _ in range(Q(tier, 60, 600)):
            d = DESC_GEN[ty](rng)
            want = enc(pyspec.wire_value(ty, d))
            if ty == "CoseKdfContext":
                out.append(case("encdec", ty, enc(d), fam="encode:" + ty, expect="ok %s ok enc=%s" % (want.hex(), want.hex())))
            else:
                out.append(case("encdec", ty, enc(d), fam="encode:" + ty,
                                expect="ok %s ok %s" % (want.hex(), pyspec.show(pyspec.assign(ty, d)))))
    out += combos.claims_combo_cases(case, 1) + combos.kdf_combo_cases(case, 1)
    if tier != 'quick': out += combos.claims_combo_cases(case, 2) + combos.kdf_combo_cases(case, 2)
    cpool = [I(-260), I(-257), I(-65537), I(-70000), I(-2**63), I(0), I(8), I(40), T("x"), T("")]
    for a, b in itertools.permutations(cpool, 2):
        out.append(case("dec", "ClaimsSet", enc(M((a, I(1)), (b, I(2)), (a, I(3)))), fam="dup-around:ClaimsSet", expect_re=r"err:\w+"))
        out.append(case("dec", "ClaimsSet", enc(M((a, I(1)), (b, I(2)))), fam="distinct-pair:ClaimsSet",
                        expect="ok [N,N,N,N,N,N,N,[[%s,i0x1],[%s,i0x2]]]" % tuple(("[i0x2,%s]" % pyspec.show(k)) if k[0] == 't' else ("[%s,%s]" % ("i0x0" if k[1] < -65536 else "i0x1", pyspec.show(k))) for k in (a, b))))
    # every variable-length position filled with n well-formed entries (no CDDL upper bound on any of them)
    for name, ty, b, n in width_sweep(("ClaimsSet", "CoseKdfContext")):
        out.append(case("dec", ty, b, fam="width-sweep:" + name, **({"expect_re": r"ok .*"} if n >= 1 else {})))
    out += value_kind_cases(("ClaimsSet",))
    out += [c for c in wrapped_body_cases(rng) if c["line"].split()[1] in ("ClaimsSet", "CoseKdfContext")]
    out += depth_sweep_cases(("ClaimsSet",))
    out += typed_field_kind_cases(("ClaimsSet", "CoseKdfContext"))
    out += [c for c in extreme_pair_cases() if " ClaimsSet " in c["line"]]
    out += text_sweep_cases(("ClaimsSet", "CoseKdfContext"))
    out += registered_extra_cases(("ClaimsSet",))
    return out

# ================================================================= C11
def _keys_distinct(m):
    ks = [enc(a) for a, _ in m[1]]
    return len(set(ks)) == len(ks)

def _hdr_ok(m):
    """a header map emitted by the crate: distinct keys, and the same for the headers of any
    counter-signature it carries (values of extra parameters are opaque user data, not checked)"""
    if m[0] != 'm': return True
    if not _keys_distinct(m): return False
    for k, v in m[1]:
        if k == ('i', 7) and v[0] == 'a' and v[1]:
            sigs = [v] if v[1][0][0] == 'b' else v[1]
            if not all(_sig_ok(sg) for sg in sigs): return False
    return True

def _prot_ok(b):
    if b[0] != 'b' or not b[1]: return True
    try:
        inner = dec_all(b[1])
    except Exception:
        return True
    return _hdr_ok(inner)

def _sig_ok(a):
    if a[0] != 'a' or len(a[1]) < 2: return True
    return _prot_ok(a[1][0]) and _hdr_ok(a[1][1])

def _rec_ok(a):
    if a[0] != 'a' or len(a[1]) < 2: return True
    ok = _prot_ok(a[1][0]) and _hdr_ok(a[1][1])
    if len(a[1]) > 3 and a[1][3][0] == 'a':
        ok = ok and all(_rec_ok(r) for r in a[1][3][1])
    return ok

def map_keys_distinct(v, ty="Header"):
    """every map the crate itself emitted inside the encoding v of a value of type ty has distinct keys"""
    if ty in ("Header", "ProtectedHeader", "CoseKey", "ClaimsSet"):
        return _keys_distinct(v) if ty in ("CoseKey", "ClaimsSet") and v[0] == 'm' else _hdr_ok(v)
    if v[0] != 'a' or len(v[1]) < 2: return True
    ok = _prot_ok(v[1][0]) and _hdr_ok(v[1][1])
    if ty == "CoseSign" and len(v[1]) > 3 and v[1][3][0] == 'a': ok = ok and all(_sig_ok(x) for x in v[1][3][1])
    if ty == "CoseMac" and len(v[1]) > 4 and v[1][4][0] == 'a': ok = ok and all(_rec_ok(x) for x in v[1][4][1])
    if ty in ("CoseEncrypt", "CoseRecipient") and len(v[1]) > 3 and v[1][3][0] == 'a': ok = ok and all(_rec_ok(x) for x in v[1][3][1])
    return ok

def cases_C11(rng, tier):
    out = []
    for ty in DESC_GEN:
        for _ in range(Q(tier, 70, 900)):
            d = DESC_GEN[ty](rng)
            want = enc(pyspec.wire_value(ty, d))
            def chk(c, o, want=want):
                if not o.startswith("ok "): return None
                b = bytes.fromhex(o.split(" ")[1]) if o.split(" ")[1] != "" else b""
                ok, _ = is_definite(b)
                if not ok: return "output uses an indefinite length"
                return None
            if ty == "CoseKdfContext":
                out.append(case("encdec", ty, enc(d), fam="encdec:" + ty, expect="ok %s ok enc=%s" % (want.hex(), want.hex()), check=chk))
            else:
                out.append(case("encdec", ty, enc(d), fam="encdec:" + ty, check=chk,
                                expect="ok %s ok %s" % (want.hex(), pyspec.show(pyspec.assign(ty, d)))))
            if ty in TAGGED_TYPES:
                out.append(case("enctag", ty, enc(d), fam="enctag:" + ty, expect="ok " + (head(6, MSG_TAG[ty]) + want).hex()))
    # omission rules field by field: a protected header holding exactly one populated field
    # (a private-use algorithm variant holding a non-private integer is not a well-formed value: it encodes, but C11's
    # round trip is promised for well-formed values only)
    singles = [h for h in single_field_headers() if not (h[1][0] != NULL and h[1][0][1][0] == I(0) and h[1][0][1][1][1] >= -65536)
               and not (h[1][2] != NULL and h[1][2][1][0] == I(2) and h[1][2][1][1][1].strip() != h[1][2][1][1][1])]
    for h in singles:
        for ty in MSG_TYPES:
            d = gen_desc_msg(rng, ty)
            x = list(d[1]); x[0] = d_protected(None, h); d2 = ('a', x)
            want = enc(pyspec.wire_value(ty, d2))
            out.append(case("encdec", ty, enc(d2), fam="single-field-protected",
                            expect="ok %s ok %s" % (want.hex(), pyspec.show(pyspec.assign(ty, d2)))))
        want = enc(pyspec.header_map(h))
        out.append(case("encdec", "Header", enc(h), fam="single-field-header", expect="ok %s ok %s" % (want.hex(), pyspec.show(pyspec.assign("Header", h)))))
    out += combos.built_combo_cases(case, 1) + (combos.built_combo_cases(case, 2) if tier != 'quick' else [])
    # all populations of the typed header fields, bare and as the protected / unprotected header of each carrier
    for h, pb in field_population_headers():
        out.append(case("enc", "Header", enc(h), fam="field-population:Header", expect="ok " + pb.hex()))
        for ty in ("CoseSign1", "CoseEncrypt0", "CoseRecipient", "CoseSignature"):
            tail = {"CoseSign1": [NULL, B(b"")], "CoseEncrypt0": [NULL], "CoseRecipient": [NULL, ('a', [])], "CoseSignature": [B(b"")]}[ty]
            for prot in (True, False):
                d = ('a', [d_protected(None, h if prot else D_EMPTY_HEADER), D_EMPTY_HEADER if prot else h] + tail)
                out.append(case("enc", ty, enc(d), fam="field-population:" + ty, expect="ok " + enc(pyspec.wire_value(ty, d)).hex()))
    # byte-string fields at every head-width boundary length
    for L in BOUNDARY_LENS:
        for d, ty in ((('a', [d_protected(None, D_EMPTY_HEADER), D_EMPTY_HEADER, B(b"p" * L), B(b"s" * L)]), "CoseSign1"),
                      (('a', [d_protected(None, D_EMPTY_HEADER), d_header(kid=b"k" * L, iv=b"i" * L), NULL]), "CoseEncrypt0"),
                      (('a', [d_protected(None, d_header(kid=b"k" * L)), D_EMPTY_HEADER, NULL, B(b"t" * L)]), "CoseMac0")):
            out.append(case("enc", ty, enc(d), fam="length-boundaries:" + ty, expect="ok " + enc(pyspec.wire_value(ty, d)).hex()))
    # extras of every value kind are emitted as given
    for c in value_kind_cases(("Header", "CoseKey", "ClaimsSet")):
        if c["line"].startswith("rt "): out.append(c)
    import tables as _tb
    for v in sorted(_tb.REG["Algorithm"]):
        for ty, tail in (("CoseRecipient", [NULL, ('a', [])]), ("CoseSignature", [B(b"s")]), ("CoseEncrypt0", [NULL])):
            d = ('a', [d_protected(None, d_header(kid=b"pk")), d_header(alg=d_reg(1, v))] + tail)
            out.append(case("enc", ty, enc(d), fam="alg-sweep:" + ty, expect="ok " + enc(pyspec.wire_value(ty, d)).hex()))
    out += [c for c in registered_extra_cases(("Header", "CoseKey", "ClaimsSet")) if c["line"].startswith("rt ")]
    # lists holding IDENTICAL entries (a list is not a set): every entry is emitted, in place
    k1 = gen_desc_key(rng, extra_labels=[I(-1)]); k2 = gen_desc_key(rng, extra_labels=[I(-2)])
    for ks in ([k1, k1], [k1, k1, k2], [k2, k1, k1], [k1, k2, k1], [k1, k1, k1]):
        d = ('a', ks)
        out.append(case("encdec", "CoseKeySet", enc(d), fam="twin-entries:CoseKeySet", expect_re=r"ok %s ok .*" % enc(pyspec.wire_value("CoseKeySet", d)).hex()))
    sg = d_signature(d_protected(None, d_header(alg=d_reg(1, -7))), d_header(kid=b"k"), b"s"); rc = A(d_protected(None, D_EMPTY_HEADER), d_header(kid=b"k"), NULL, ('a', []))
    for n in (2, 3):
        d = ('a', [d_protected(None, D_EMPTY_HEADER), D_EMPTY_HEADER, NULL, ('a', [sg] * n)])
        out.append(case("enc", "CoseSign", enc(d), fam="twin-entries:CoseSign", expect="ok " + enc(pyspec.wire_value("CoseSign", d)).hex()))
        d = ('a', [d_protected(None, D_EMPTY_HEADER), D_EMPTY_HEADER, NULL, ('a', [rc] * n)])
        out.append(case("enc", "CoseEncrypt", enc(d), fam="twin-entries:CoseEncrypt", expect="ok " + enc(pyspec.wire_value("CoseEncrypt", d)).hex()))
        h = d_header(csigs=[d_signature(d_protected(None, D_EMPTY_HEADER), D_EMPTY_HEADER, b"s")] * n)
        out.append(case("enc", "Header", enc(h), fam="twin-entries:countersignatures", expect="ok " + enc(pyspec.header_map(h)).hex()))
    return out

# ================================================================= C12
def nest_header_positions(rng, hb):
    """(type, bytes) placing the header map bytes hb at every nesting position"""
    raw = ("raw", hb)
    sig_p = A(B(hb), M(), B(b"")); sig_u = A(B(b""), raw, B(b""))
    rec_p = A(B(hb), M(), NULL); rec_u = A(B(b""), raw, NULL)
    out = [("Header", hb), ("ProtectedHeader", hb),
           ("CoseSign1", enc(A(B(hb), M(), NULL, B(b"")))), ("CoseSign1", enc(A(B(b""), raw, NULL, B(b"")))),
           ("CoseSign", enc(A(B(b""), M(), NULL, A(sig_p)))), ("CoseSign", enc(A(B(b""), M(), NULL, A(sig_u)))),
           ("CoseSignature", enc(sig_p)), ("CoseSignature", enc(sig_u)),
           ("CoseMac", enc(A(B(b""), M(), NULL, B(b""), A(rec_p)))), ("CoseMac", enc(A(B(b""), M(), NULL, B(b""), A(rec_u)))),
           ("CoseEncrypt", enc(A(B(b""), M(), NULL, A(A(B(b""), M(), NULL, A(rec_u)))))),
           ("CoseEncrypt0", enc(A(B(hb), M(), NULL))), ("CoseMac0", enc(A(B(b""), raw, NULL, B(b"")))),
           ("CoseRecipient", enc(rec_p)),
           ("Header", enc(M((I(7), sig_p)))), ("Header", enc(M((I(7), A(sig_u, sig_p))))),
           ("CoseSign1", enc(A(B(enc(M((I(7), sig_u)))), M(), NULL, B(b"")))),
           ("SuppPubInfo", enc(A(I(128), B(hb)))), ("CoseKdfContext", enc(A(I(1), A(NULL, NULL, NULL), A(NULL, NULL, NULL), A(I(128), B(hb)))))]
    return out

def twin_key(rng, k):
    """another encoding of the same key"""
    return ("raw", enc(k, rng))

def cases_C12(rng, tier):
    out = []
    # decode: otherwise valid maps with one duplicated label at every position pair
    for _ in range(Q(tier, 300, 4000)):
        kind = rng.choice(["Header", "Header", "CoseKey", "ClaimsSet"])
        if kind == "Header": entries = gen_header_entries(rng, 1, 0)
        elif kind == "CoseKey": entries = gen_key_entries(rng, 0)
        else: entries = gen_claims_entries(rng, 0)
        if not entries: entries = [(I(99 if kind != "ClaimsSet" else 8), I(1))]
        i = rng.randrange(len(entries))
        k, v = entries[i]
        # the twin: same label, other encoding, arbitrary value
        v2 = v if rng.random() < 0.4 else gen_scalar(rng)
        j = rng.randrange(len(entries) + 1)
        dup = list(entries); dup.insert(j, (twin_key(rng, k), v2))
        hb = enc(('m', dup))
        # both IVs would fail earlier for another reason; skip those
        labels = [e[0] for e in entries]
        if kind == "Header":
            for ty, b in (nest_header_positions(rng, hb) if rng.random() < 0.25 else [("Header", hb)]):
                # the duplicate comes after a fully valid prefix, or is itself the first occurrence:
                # the first completed duplicate must be reported as such when everything before it is valid
                out.append(case("dec", ty, b, fam="dup-decode:" + ty, expect_re=r"err:\w+"))
            # exact error kind at top level when the twin carries the same (valid) value
            if v2 == v or j > i:
                pass
            out.append(case("dec", "Header", hb, fam="dup-decode-kind", strict_err=True))
        else:
            out.append(case("dec", kind, hb, fam="dup-decode:" + kind, expect_re=r"err:\w+", strict_err=True))
    # a duplicated label at every counter-signature nesting depth (also at and beyond the nesting budget:
    # whatever the reason, a map with a repeated label is never accepted, and never re-emitted)
    dups = [enc(M((I(66), I(1)), (I(66), I(2)))), enc(M((I(4), B(b"a")), (("raw", b"\x18\x04"), B(b"a")))), enc(M((T("x"), I(1)), (I(1), I(-7)), (T("x"), I(1))))]
    for d in range(0, Q(tier, 21, 40)):
        for form in ("single", "list", "list2"):
            for dm in dups:
                hb = nested_header(d, form, inner=dm)
                out.append(case("dec", "Header", hb, fam="dup-at-depth:Header", expect_re=r"err:\w+"))
                out.append(case("dec", "CoseSign1", enc(A(B(hb), M(), NULL, B(b""))), fam="dup-at-depth:CoseSign1", expect_re=r"err:\w+"))
                out.append(case("dec", "CoseMac", enc(A(B(b""), M(), NULL, B(b""), A(A(B(hb), M(), NULL)))), fam="dup-at-depth:CoseMac", expect_re=r"err:\w+"))
    # the precise kind: maps whose every entry is individually valid -> DuplicateMapKey
    for _ in range(Q(tier, 300, 3000)):
        kind = rng.choice(["Header", "CoseKey", "ClaimsSet"])
        if kind == "Header":
            entries = [e for e in gen_header_entries(rng, 1, 0) if e[0] not in (('i', 5), ('i', 6))]
        elif kind == "CoseKey": entries = gen_key_entries(rng, 0)
        else: entries = gen_claims_entries(rng, 0)
        if not entries: continue
        i = rng.randrange(len(entries)); k, v = entries[i]
        j = rng.randrange(len(entries) + 1)
        dup = list(entries); dup.insert(j, (twin_key(rng, k), v))
        out.append(case("dec", kind, enc(('m', dup)), fam="dup-all-valid:" + kind, expect="err:Dup", strict_err=True))
    # encode: extras repeating a label, or naming a populated / unpopulated standard label
    def chk_nodup(c, o):
        if not o.startswith("ok "): return None
        v = dec_all(bytes.fromhex(o.split(" ")[1]))
        return None if map_keys_distinct(v, c["line"].split(" ")[1]) else "encoder emitted a map with a repeated label"
    for _ in range(Q(tier, 400, 4000)):
        kind = rng.choice(["Header", "CoseKey", "ClaimsSet", "CoseSign1", "ProtectedHeader"])
        if kind in ("Header", "CoseSign1", "ProtectedHeader"):
            h = gen_desc_header(rng, rng.choice([0, 1]))
            x = list(h[1]); rest = list(x[7][1])
            mode = rng.random()
            populated = [l for l, f in zip((1, 2, 3, 4, 5, 6, 7), x[:7]) if f != NULL and (f[0] not in ('a', 'b') or f[1])]
            if mode < 0.25 and populated:
                # an extra naming a typed field that IS populated (all seven, counter signatures included)
                rest.insert(rng.randrange(len(rest) + 1), A(I(rng.choice(populated)), gen_scalar(rng)))
            elif mode < 0.4 and rest:
                rest.insert(rng.randrange(len(rest) + 1), rng.choice(rest))
            elif mode < 0.8:
                rest.insert(rng.randrange(len(rest) + 1), A(I(rng.choice([1, 2, 3, 4, 5, 6, 7])), gen_scalar(rng)))
            else:
                rest.append(A(T("dup"), I(1))); rest.insert(0, A(T("dup"), I(2)))
            x[7] = ('a', rest); h2 = ('a', x)
            if kind == "Header": d = h2
            elif kind == "ProtectedHeader": d = d_protected(None, h2)
            else: d = A(d_protected(None, h2) if rng.random() < 0.5 else d_protected(None, D_EMPTY_HEADER), h2 if rng.random() < 0.5 else D_EMPTY_HEADER, NULL, B(b""))
            out.append(case("enc", kind, enc(d), fam="dup-encode:" + kind, check=chk_nodup, may_panic=False))
        elif kind == "CoseKey":
            d = gen_desc_key(rng)
            x = list(d[1]); params = list(x[5][1])
            mode = rng.random()
            if mode < 0.4 and params: params.insert(rng.randrange(len(params) + 1), rng.choice(params))
            else: params.insert(rng.randrange(len(params) + 1), A(I(rng.choice([1, 2, 3, 4, 5])), gen_scalar(rng)))
            x[5] = ('a', params)
            out.append(case("enc", kind, enc(('a', x)), fam="dup-encode:CoseKey", check=chk_nodup))
        else:
            d = gen_desc_claims(rng)
            x = list(d[1]); rest = list(x[7][1])
            mode = rng.random()
            if mode < 0.5 and rest: rest.insert(rng.randrange(len(rest) + 1), rng.choice(rest))
            else: rest.insert(rng.randrange(len(rest) + 1), A(d_reg(1, rng.choice([1, 2, 3, 4, 5, 6, 7])), gen_scalar(rng)))
            x[7] = ('a', rest)
            out.append(case("enc", kind, enc(('a', x)), fam="dup-encode:ClaimsSet", check=chk_nodup, claims_dup=True))
    out += combos.dup_class_pair_cases(case)
    out += [c for f in (combos.header_combo_cases, combos.key_combo_cases, combos.claims_combo_cases) for c in f(case, 4) if '-dup' in c['fam']]
    # the duplicate-key error itself must come through every enclosing decoder (maps whose entries are all valid)
    for hb in (enc(M((I(4), B(b"\x01")), (I(4), B(b"\x01")))), enc(M((I(99), I(1)), (T("y"), I(0)), (I(99), I(2)))), enc(M((T("x"), I(1)), (I(1), I(-7)), (T("x"), I(1))))):
        raw = ("raw", hb)
        rec_p = A(B(hb), M(), NULL); rec_u = A(B(b""), raw, NULL)
        sig_p = A(B(hb), M(), B(b"")); sig_u = A(B(b""), raw, B(b""))
        def rec_at(depth, r):
            for _ in range(depth): r = A(B(b""), M(), NULL, A(A(B(b""), M(), NULL), r))
            return r
        places = [("Header", hb, False), ("ProtectedHeader", hb, False), ("CoseSign1", enc(A(B(hb), M(), NULL, B(b""))), False),
                  ("CoseMac0", enc(A(B(b""), raw, NULL, B(b""))), False), ("CoseEncrypt0", enc(A(B(hb), M(), NULL)), False),
                  ("CoseSignature", enc(sig_p), False), ("CoseSignature", enc(sig_u), False),
                  ("CoseSign1", enc(A(B(b""), M((I(7), sig_u)), NULL, B(b""))), False), ("CoseSign1", enc(A(B(enc(M((I(7), A(sig_p, sig_p))))), M(), NULL, B(b""))), False),
                  ("SuppPubInfo", enc(A(I(1), B(hb))), False), ("CoseKdfContext", enc(A(I(1), A(NULL, NULL, NULL), A(NULL, NULL, NULL), A(I(1), B(hb)))), False),
                  ("CoseSign", enc(A(B(b""), M(), NULL, A(sig_p))), True), ("CoseSign", enc(A(B(b""), M(), NULL, A(A(B(b""), M(), B(b"")), sig_u))), True)]
        for d in (0, 1, 2, 3):
            for r in (rec_p, rec_u):
                places.append(("CoseRecipient", enc(rec_at(d, r)), False))
                places.append(("CoseMac", enc(A(B(b""), M(), NULL, B(b""), A(rec_at(d, r)))), False))
                places.append(("CoseEncrypt", enc(A(B(b""), M(), NULL, A(A(B(b""), M(), NULL), rec_at(d, r)))), False))
        for ty, b, masked in places:
            out.append(case("dec", ty, b, fam="dup-kind-at-position:" + ty, expect="err:Dup", strict_err=True, sign_nested=masked))
    # a label repeated around another one, for every ordered pair of a boundary label pool (the tracker must not depend on
    # the order relation between the two): headers, keys, claims
    pool = [I(-1), I(-24), I(-25), I(23), I(24), I(255), I(256), I(0), I(2**63 - 1), I(-2**63), T("a"), T("aa"), T("")]
    for a, b in itertools.permutations(pool, 2):
        out.append(case("dec", "Header", enc(M((a, I(1)), (b, I(2)), (a, I(3)))), fam="dup-around:Header", expect="err:Dup", strict_err=True))
        out.append(case("dec", "CoseKey", enc(M((I(1), I(4)), (a, I(1)), (b, I(2)), (a, I(3)))), fam="dup-around:CoseKey", expect_re=r"err:\w+"))
    cpool = [I(-260), I(-257), I(-65537), I(-70000), I(-2**63), I(0), I(8), I(40), T("x"), T("")]
    for a, b in itertools.permutations(cpool, 2):
        out.append(case("dec", "ClaimsSet", enc(M((a, I(1)), (b, I(2)), (a, I(3)))), fam="dup-around:ClaimsSet", expect="err:Dup", strict_err=True))
        out.append(case("dec", "ClaimsSet", enc(M((a, I(1)), (b, I(2)))), fam="distinct-pair:ClaimsSet", expect_re=r"ok .*"))
    for kty in (I(4), I(99), I(0), T("x")):
        for a in (I(-1), I(2), T("y"), I(1)):
            for order in (0, 1, 2):
                es = [(a, I(1)), (a, I(2))] if a != I(1) else [(I(1), kty), (I(1), kty)]
                if a != I(1): es.insert(order, (I(1), kty))
                km = enc(('m', es))
                out.append(case("dec", "CoseKeySet", b"\x81" + km, fam="dup-in-keyset", expect_re=r"err:\w+"))
                out.append(case("dec", "CoseKeySet", b"\x82" + enc(M((I(1), I(4)))) + km, fam="dup-in-keyset", expect_re=r"err:\w+"))
    out += [c for c in value_kind_cases(("Header", "CoseKey", "ClaimsSet")) if c["line"].startswith("dec ")]
    # labels that are DISTINCT but look alike (integer n and text "n", case variants, -1 and "−1" ...): two such entries
    # in one map are not duplicates, whatever the map and carrier
    alike = [(I(12), T("12")), (T("12"), I(12)), (I(-1), T("-1")), (I(100), T("100")), (T("a"), T("A")), (T(""), I(0)), (I(8), T("8")), (T("007"), I(7 + 93)),
             (I(-70000), T("-70000")), (T("1000"), I(1000)), (I(24), T("24")), (T("x"), T("x ")), (I(100), I(-101)), (I(255), I(256))]
    for a, b in alike:
        out.append(case("dec", "Header", enc(M((a, I(1)), (b, I(2)))), fam="alike-labels:header", expect_re=r"ok .*"))
        out.append(case("dec", "CoseSign1", enc(A(B(enc(M((a, I(1)), (b, I(2))))), M(), NULL, B(b""))), fam="alike-labels:protected", expect_re=r"ok .*"))
        out.append(case("dec", "CoseEncrypt", enc(A(B(b""), M(), NULL, A(A(B(b""), M((a, I(1)), (b, I(2))), NULL)))), fam="alike-labels:recipient", expect_re=r"ok .*"))
        out.append(case("dec", "CoseKey", enc(M((I(1), I(4)), (a, I(1)), (b, I(2)))), fam="alike-labels:key", expect_re=r"ok .*"))
        out.append(case("dec", "CoseKeySet", enc(A(M((I(1), I(4)), (a, I(1)), (b, I(2))))), fam="alike-labels:keyset", expect_re=r"ok .*"))
        out.append(case("rt", "CoseKey", enc(M((I(1), I(4)), (a, I(1)), (b, I(2)))), fam="alike-labels:key-rt", expect_re=r"ok [0-9a-f]+ T T"))
        ca, cb = [(I(-70000 - abs(x[1])) if x[0] == 'i' else x) for x in (a, b)]
        if ca != cb:
            out.append(case("dec", "ClaimsSet", enc(M((ca, I(1)), (cb, I(2)))), fam="alike-labels:claims", expect_re=r"ok .*"))
    out += [c for c in extreme_pair_cases() if c["line"].startswith("dec ")]
    return out

# ================================================================= C20
def cases_C20(rng, tier):
    out = []
    pool = [I(x) for x in (-1, -2, -3, -4, -24, -25, -256, -257, -65537, 6, 7, 23, 24, 255, 256, 65535, 65536, 2**32, 2**63 - 1, -2**63)] \
        + [T(t) for t in ("", "a", "b", "aa", "z" * 23, "y" * 24, "é", "1", "2", "12", "-1", "007", "1000", "24", "-25")]
    def chk_sorted(order):
        def f(c, o):
            m = re.fullmatch(r"ok (\S+) ok ([0-9a-f]+)", o)
            if not m: return "canonicalised key does not encode: %s" % o[:100]
            v = dec_all(bytes.fromhex(m.group(2)))
            ks = [enc(k) for k, _ in v[1]]
            keyf = (lambda e: e) if order == "Lexicographic" else (lambda e: (len(e), e))
            for a, b in zip(ks, ks[1:]):
                if not keyf(a) < keyf(b): return "encoded keys not strictly ascending (%s before %s)" % (a.hex(), b.hex())
            return None
        return f
    for _ in range(Q(tier, 500, 6000)):
        labels = rng.sample(pool, rng.choice([0, 1, 2, 3, 4, 5, 6]))
        zero = rng.random() < 0.04
        if zero: labels.insert(rng.randrange(len(labels) + 1), I(0))
        d = gen_desc_key(rng, extra_labels=labels)
        for order in ("Lexicographic", "LengthFirstLexicographic"):
            out.append(case("canon", order, enc(d), fam="canon" + ("-label0" if zero else ""), check=chk_sorted(order),
                            label_zero=zero, key=enc(d), order=order))
    # label sets drawn ONLY from one encoded-length class or straddling exactly one class boundary (a fast
    # path keyed on "all labels are short" must still agree with the order of the encodings)
    classes = [[-1, -10, -24, 6, 23], [-25, -100, -256, 24, 25, 255], [-257, -65536, 256, 65535], ["a", "b", ""], ["aa", "ab", "é"],
               ["k" * 22, "k" * 23, "j" * 24], ["x" * 253, "y" * 254, "z" * 255, "w" * 256, "v" * 300], [-1, 23, "a", 2**32, -2**63]]
    sets = []
    for i, ca in enumerate(classes):
        for cb in classes[i:i + 2]:
            both = list(dict.fromkeys(ca + cb))
            for k in (2, 3, 4):
                for _ in range(Q(tier, 12, 60)):
                    if len(both) >= k: sets.append(rng.sample(both, k))
    for a, b in itertools.permutations([-1, -24, -25, 23, 24, 25, -256, -257, 255, 256], 2):
        sets.append([a, b])
    for ls in sets:
        labels = [I(x) if isinstance(x, int) else T(x) for x in ls]
        d = gen_desc_key(rng, extra_labels=labels)
        for order in ("Lexicographic", "LengthFirstLexicographic"):
            out.append(case("canon", order, enc(d), fam="canon-length-classes", check=chk_sorted(order), key=enc(d), order=order))
    # MANY parameters (sorting routines switch algorithm with the slice length): 20..300 labels over all length classes
    bigpool = [I(x) for x in list(range(6, 60)) + list(range(-60, 0)) + list(range(250, 300)) + list(range(-300, -250)) + [65535, 65536, -65536, -65537, 2**32, -2**32 - 1, 2**63 - 1, -2**63]] \
        + [T(t) for t in ["", "a", "b", "c", "aa", "ab", "ba", "zz", "aaa", "k" * 23, "k" * 24, "j" * 24, "m" * 255, "m" * 256] + ["t%d" % i for i in range(40)]]
    for n in (20, 21, 32, 33, 34, 40, 64, 65, 100, 128, 129, 200):
        for _ in range(Q(tier, 2, 6)):
            d = gen_desc_key(rng, extra_labels=rng.sample(bigpool, min(n, len(bigpool))))
            for order in ("Lexicographic", "LengthFirstLexicographic"):
                out.append(case("canon", order, enc(d), fam="canon-many-params", check=chk_sorted(order), key=enc(d), order=order))
    # all permutations of a small label set
    base = [I(-1), I(24), T("a"), I(-257), I(7)]
    for perm in itertools.permutations(base, Q(tier, 4, 5)):
        d = gen_desc_key(rng, extra_labels=list(perm))
        for order in ("Lexicographic", "LengthFirstLexicographic"):
            out.append(case("canon", order, enc(d), fam="canon-perm", check=chk_sorted(order), key=enc(d), order=order))
    return out

def post_C20(cases, impl):
    """same label/value pairs before and after; idempotent; decodes and re-encodes to the same bytes"""
    probs = []
    follow = []
    for c, o in zip(cases, impl):
        m = re.fullmatch(r"ok (\S+) ok ([0-9a-f]+)", o)
        if not m: continue
        before = dec_all(c["key"])          # the description
        after = parse_show(m.group(1))
        bx, ax = before[1], after[1]
        def norm_key(k):   # description -> comparable (ops as set, params as multiset)
            return (pyspec.show(k[0]), pyspec.show(k[1]), pyspec.show(k[2]), sorted(pyspec.show(x) for x in k[3][1]),
                    pyspec.show(k[4]), sorted(pyspec.show(x) for x in k[5][1]))
        if norm_key(bx) != norm_key(ax):
            probs.append((c, o, "canonicalize changed the key's content"))
    return probs

def extra_C20(rng, tier):
    """second phase on the implementation: canonicalise again (no-op) and decode/re-encode"""
    import runner
    cs = cases_C20(random_from(rng), "quick")[:400]
    o1 = runner.run_impl([c["line"] for c in cs])
    probs = []; lines2 = []; idx = []
    for c, o in zip(cs, o1):
        m = re.fullmatch(r"ok (\S+) ok ([0-9a-f]+)", o)
        if not m or "fNaN" in o: continue     # the observation format does not carry NaN payloads
        d2 = enc(parse_show(m.group(1)))
        lines2.append("canon %s %s" % (c["order"], d2.hex())); idx.append((c, o, m.group(2)))
        lines2.append("rt CoseKey %s" % m.group(2)); idx.append((c, o, m.group(2)))
        lines2.append("enc CoseKeySet %s" % enc(A(parse_show(m.group(1)))).hex()); idx.append((c, o, m.group(2)))
        lines2.append("rt CoseKeySet 82a10104%s" % m.group(2)); idx.append((c, o, m.group(2)))
    o2 = runner.run_impl(lines2)
    for (c, o, hexb), l2, r2 in zip(idx, lines2, o2):
        if l2.startswith("canon"):
            if r2 != o: probs.append(({"line": l2, "fam": "canon-twice", "label_zero": c.get("label_zero")}, r2, "canonicalising twice is not a no-op: first %s" % o[:120]))
        elif l2.startswith("enc CoseKeySet"):
            if r2 != "ok 81" + hexb:
                probs.append(({"line": l2, "fam": "canon-in-keyset", "label_zero": c.get("label_zero")}, r2, "canonicalised key is not emitted as it is when it is a member of a key set (expected 81 %s)" % hexb[:80]))
        elif l2.startswith("rt CoseKeySet"):
            if r2 != "ok 82a10104%s T T" % hexb:
                probs.append(({"line": l2, "fam": "canon-in-keyset-rt", "label_zero": c.get("label_zero")}, r2, "key set holding the canonical encoding does not decode and re-encode to the same bytes"))
        else:
            if r2 != "ok %s T T" % hexb:
                probs.append(({"line": l2, "fam": "canon-rt", "label_zero": c.get("label_zero")}, r2, "canonicalised key does not decode and re-encode to the same bytes"))
    return {"problems": probs, "coverage": {"second_phase_cases": len(lines2)}}

def random_from(rng):
    import random
    return random.Random(rng.random())

# ================================================================= C19 / C06 builder histories
KEYPARAM_REG = [0, 1, 2, 3, 4, 5]
CURVES = [0, 1, 2, 3, 4, 5, 6, 7, 8]
def clo(rng, fail_ok=False):
    return A(I(1 if (fail_ok and rng.random() < 0.25) else 0), B(rbytes(rng, 2)))

def hb_op(rng):
    r = rng.randrange(11)
    if r == 0: return A(T("key_id"), B(rbytes(rng, rng.choice([0, 1, 4]))))
    if r == 1: return A(T("algorithm"), I(rng.choice(ALG_REG)))
    if r == 2: return A(T("add_critical"), I(rng.choice(HP_REG)))
    if r == 3: return A(T("add_critical_label"), rng.choice([d_reg(1, rng.choice(HP_REG)), d_reg(2, rng.choice(TEXT_LABELS))]))
    if r == 4: return A(T("content_format"), I(rng.choice(CF_REG)))
    if r == 5: return A(T("content_type"), T(rng.choice(CT_TEXT_OK + CT_TEXT_BAD)))
    if r == 6: return A(T("iv"), B(rbytes(rng, rng.choice([0, 1, 4]))))
    if r == 7: return A(T("partial_iv"), B(rbytes(rng, rng.choice([0, 1, 4]))))
    if r == 8: return A(T("add_counter_signature"), gen_desc_signature(rng, 0))
    if r == 9: return A(T("value"), I(rng.choice([0, 1, 2, 6, 7, 8, 9, -1, 256, -65537, 2**63 - 1, -2**63, 33])), gen_scalar(rng))
    return A(T("text_value"), T(rng.choice(TEXT_LABELS)), gen_scalar(rng))

def hdr_arg(rng):
    return gen_desc_header(rng, 0) if rng.random() < 0.8 else D_EMPTY_HEADER

def builder_ops(rng, bt, n, create_ok=True):
    ops = []
    for _ in range(n):
        if bt == "Header": ops.append(hb_op(rng)); continue
        r = rng.random()
        if bt == "CoseSignature":
            ops.append(rng.choice([A(T("protected"), hdr_arg(rng)), A(T("unprotected"), hdr_arg(rng)), A(T("signature"), B(rbytes(rng)))]))
        elif bt == "CoseSign1":
            if r < 0.6: ops.append(rng.choice([A(T("protected"), hdr_arg(rng)), A(T("unprotected"), hdr_arg(rng)), A(T("signature"), B(rbytes(rng))), A(T("payload"), B(rbytes(rng)))]))
            elif r < 0.8:
                nm = rng.choice(["create_signature", "try_create_signature"]); ops.append(A(T(nm), B(rbytes(rng)), clo(rng, nm.startswith("try"))))
            else:
                nm = rng.choice(["create_detached_signature", "try_create_detached_signature"]); ops.append(A(T(nm), B(rbytes(rng)), B(rbytes(rng)), clo(rng, nm.startswith("try"))))
        elif bt == "CoseSign":
            if r < 0.55: ops.append(rng.choice([A(T("protected"), hdr_arg(rng)), A(T("unprotected"), hdr_arg(rng)), A(T("payload"), B(rbytes(rng))), A(T("add_signature"), gen_desc_signature(rng, 0))]))
            elif r < 0.8:
                nm = rng.choice(["add_created_signature", "try_add_created_signature"]); ops.append(A(T(nm), gen_desc_signature(rng, 0), B(rbytes(rng)), clo(rng, nm.startswith("try"))))
            else:
                nm = rng.choice(["add_detached_signature", "try_add_detached_signature"]); ops.append(A(T(nm), gen_desc_signature(rng, 0), B(rbytes(rng)), B(rbytes(rng)), clo(rng, nm.startswith("try"))))
        elif bt in ("CoseMac0", "CoseMac"):
            base = [A(T("protected"), hdr_arg(rng)), A(T("unprotected"), hdr_arg(rng)), A(T("tag"), B(rbytes(rng))), A(T("payload"), B(rbytes(rng)))]
            if bt == "CoseMac": base.append(A(T("add_recipient"), gen_desc_recipient(rng, 0)))
            if r < 0.7: ops.append(rng.choice(base))
            else:
                nm = rng.choice(["create_tag", "try_create_tag"]); ops.append(A(T(nm), B(rbytes(rng)), clo(rng, nm.startswith("try"))))
        elif bt in ("CoseEncrypt", "CoseEncrypt0", "CoseRecipient"):
            base = [A(T("protected"), hdr_arg(rng)), A(T("unprotected"), hdr_arg(rng)), A(T("ciphertext"), B(rbytes(rng)))]
            if bt != "CoseEncrypt0": base.append(A(T("add_recipient"), gen_desc_recipient(rng, 0)))
            if r < 0.7: ops.append(rng.choice(base))
            else:
                name = rng.choice(["create_ciphertext", "try_create_ciphertext"])
                if bt == "CoseRecipient":
                    ops.append(A(T(name), T(rng.choice(list(pyspec.ENC_CTX))), B(rbytes(rng)), B(rbytes(rng)), clo(rng, name.startswith("try"))))
                else:
                    ops.append(A(T(name), B(rbytes(rng)), B(rbytes(rng)), clo(rng, name.startswith("try"))))
        elif bt == "CoseKey":
            k = rng.randrange(13)
            if k == 0: ops.append(A(T("new")))
            elif k == 1: ops.append(A(T("new_okp_key")))
            elif k == 2: ops.append(A(T("new_symmetric_key"), B(rbytes(rng))))
            elif k == 3: ops.append(A(T("new_ec2_pub_key"), I(rng.choice(CURVES)), B(rbytes(rng)), B(rbytes(rng))))
            elif k == 4: ops.append(A(T("new_ec2_pub_key_y_sign"), I(rng.choice(CURVES)), B(rbytes(rng)), rng.choice([TRUE, FALSE])))
            elif k == 5: ops.append(A(T("new_ec2_priv_key"), I(rng.choice(CURVES)), B(rbytes(rng)), B(rbytes(rng)), B(rbytes(rng))))
            elif k == 6: ops.append(A(T("kty"), rng.choice([d_reg(1, rng.choice(KTY_REG + [0])), d_reg(2, "k")])))
            elif k == 7: ops.append(A(T("key_id"), B(rbytes(rng, rng.choice([0, 2])))))
            elif k == 8: ops.append(A(T("base_iv"), B(rbytes(rng, rng.choice([0, 2])))))
            elif k == 9: ops.append(A(T("key_type"), I(rng.choice(KTY_REG + [0]))))
            elif k == 10: ops.append(A(T("algorithm"), I(rng.choice(ALG_REG))))
            elif k == 11: ops.append(A(T("add_key_op"), I(rng.choice(KOP_REG))))
            else: ops.append(A(T("param"), I(rng.choice([-1, -2, -3, -4, 0, 1, 2, 3, 4, 5, 6, 7, 100, -65537, 2**63 - 1])), gen_scalar(rng)))
        elif bt == "ClaimsSet":
            k = rng.randrange(10)
            if k < 3: ops.append(A(T(["issuer", "subject", "audience"][k]), T(rng.choice(["a", "", "iss"]))))
            elif k < 6: ops.append(A(T(["expiration_time", "not_before", "issued_at"][k - 3]), gen_desc_timestamp(rng)))
            elif k == 6: ops.append(A(T("cwt_id"), B(rbytes(rng))))
            elif k == 7: ops.append(A(T("claim"), I(rng.choice([-260, -259, -258, -257, 0, 1, 2, 3, 4, 5, 6, 7, 8, 9, 38, 39, 40])), gen_scalar(rng)))
            elif k == 8: ops.append(A(T("text_claim"), T(rng.choice(TEXT_LABELS)), gen_scalar(rng)))
            else: ops.append(A(T("private_claim"), I(rng.choice([-65537, -65536, -65535, -70000, 0, 1, 100, -1, -2**63, 2**63 - 1])), gen_scalar(rng)))
        elif bt == "PartyInfo":
            ops.append(rng.choice([A(T("identity"), B(rbytes(rng))), A(T("nonce"), rng.choice([B(rbytes(rng)), I(rng.choice([0, -1, 2**63 - 1, -2**63]))])), A(T("other"), B(rbytes(rng)))]))
        elif bt == "SuppPubInfo":
            ops.append(rng.choice([A(T("key_data_length"), I(rng.choice([0, 128, 2**64 - 1]))), A(T("protected"), hdr_arg(rng)), A(T("other"), B(rbytes(rng)))]))
        elif bt == "CoseKdfContext":
            ops.append(rng.choice([A(T("party_u_info"), gen_desc_party(rng)), A(T("party_v_info"), gen_desc_party(rng)),
                                   A(T("supp_pub_info"), gen_desc_supp(rng)), A(T("algorithm"), I(rng.choice(ALG_REG))),
                                   A(T("add_supp_priv_info"), B(rbytes(rng)))]))
    return ops

BUILDERS = ["Header", "CoseSignature", "CoseSign1", "CoseSign", "CoseMac0", "CoseMac", "CoseRecipient", "CoseEncrypt",
            "CoseEncrypt0", "CoseKey", "ClaimsSet", "PartyInfo", "SuppPubInfo", "CoseKdfContext"]

def cases_C19(rng, tier):
    out = []
    maxlen = Q(tier, 12, 40)
    for bt in BUILDERS:
        for _ in range(Q(tier, 150, 1500)):
            n = rng.choice([0, 1, 2, 3, 4, 6, 8, maxlen])
            ops = builder_ops(rng, bt, n)
            out.append(case("build", bt, enc(('a', ops)), fam="history:" + bt, may_panic=True))
    # documented panics, exact ranges
    for l in list(range(-3, 12)) + [2**63 - 1, -2**63]:
        out.append(case("build", "Header", enc(A(A(T("value"), I(l), I(0)))), fam="value-range", may_panic=True,
                        expect_re=("panic" if 1 <= l <= 7 else r"ok .*")))
        out.append(case("build", "CoseKey", enc(A(A(T("param"), I(l), I(0)))), fam="param-range", may_panic=True,
                        expect_re=("panic" if 0 <= l <= 5 else r"ok .*")))
    for l in [-260, -259, -258, -257, 0, 1, 2, 3, 4, 5, 6, 7, 8, 9, 38, 39, 40]:
        out.append(case("build", "ClaimsSet", enc(A(A(T("claim"), I(l), I(0)))), fam="claim-range", may_panic=True,
                        expect_re=("panic" if 1 <= l <= 7 else r"ok .*")))
    for l in [-65538, -65537, -65536, -65535, 0, 1, -1, 2**63 - 1, -2**63]:
        out.append(case("build", "ClaimsSet", enc(A(A(T("private_claim"), I(l), I(0)))), fam="private-claim-range", may_panic=True,
                        expect_re=(r"ok .*" if l < -65536 else "panic")))
    # IV / Partial IV clearing, in both orders
    for a, b in (("iv", "partial_iv"), ("partial_iv", "iv")):
        out.append(case("build", "Header", enc(A(A(T(a), B(b"\x01")), A(T(b), B(b"\x02")))), fam="iv-clears",
                        check=lambda c, o: None if re.search(r",h02,h,|,h,h02,", o) else "both IV fields populated or wrong one kept"))
    out += combos.builder_pair_cases(case, builder_ops, BUILDERS, 1)
    # argument-emptiness products: every call of a short history with every subset of its byte-string arguments
    # empty at once (a constructor or setter must record exactly what it was given, empty values included)
    for bt in BUILDERS:
        for _ in range(Q(tier, 40, 300)):
            ops = builder_ops(rng, bt, rng.choice([1, 2, 3]))
            for oi, op in enumerate(ops):
                idx = [i for i, a in enumerate(op[1]) if i > 0 and a[0] == 'b']
                if len(idx) < 2 or len(idx) > 4: continue
                for mask in range(1, 2 ** len(idx)):
                    args = list(op[1])
                    for bit, i in enumerate(idx):
                        if mask >> bit & 1: args[i] = B(b"")
                    v = list(ops); v[oi] = ('a', args)
                    out.append(case("build", bt, enc(('a', v)), fam="arg-emptiness:" + bt, may_panic=True))
    for curve in CURVES:
        for x in (b"", b"x"):
            for y in (b"", b"y"):
                for dd in (b"", b"d"):
                    for tail in ([], [A(T("key_id"), B(b"kid"))], [A(T("param"), I(-70000), B(b""))]):
                        out.append(case("build", "CoseKey", enc(('a', [A(T("new_ec2_priv_key"), I(curve), B(x), B(y), B(dd))] + tail)), fam="key-constructor-emptiness", may_panic=True))
                    out.append(case("build", "CoseKey", enc(A(A(T("new_ec2_pub_key"), I(curve), B(x), B(y)))), fam="key-constructor-emptiness", may_panic=True))
                for sg in (TRUE, FALSE):
                    out.append(case("build", "CoseKey", enc(A(A(T("new_ec2_pub_key_y_sign"), I(curve), B(x), sg))), fam="key-constructor-emptiness", may_panic=True))
    for k in (b"", b"k"):
        out.append(case("build", "CoseKey", enc(A(A(T("new_symmetric_key"), B(k)))), fam="key-constructor-emptiness", may_panic=True))
    return out

def cases_C06(rng, tier):
    out = []
    for _ in range(Q(tier, 700, 8000)):
        bt = rng.choice(["CoseSign1", "CoseSign", "CoseMac0", "CoseMac", "CoseEncrypt", "CoseEncrypt0", "CoseRecipient"])
        aad, pl, k = rbytes(rng), rbytes(rng), rbytes(rng, 2)
        (ph, pb) = builder_header_choice(rng); uh = hdr_arg(rng)
        pre = builder_ops(rng, bt, rng.choice([0, 0, 1, 2]))
        pre = [o for o in pre if o[1][0][1] not in (b"create_signature", b"try_create_signature", b"create_detached_signature",
               b"try_create_detached_signature", b"add_created_signature", b"try_add_created_signature", b"add_detached_signature",
               b"try_add_detached_signature", b"create_tag", b"try_create_tag", b"create_ciphertext", b"try_create_ciphertext", b"add_signature")]
        setup = pre + [A(T("protected"), ph), A(T("unprotected"), uh)]
        tagged = rng.random() < 0.4 and bt != "CoseRecipient"
        fail = rng.random() < 0.08
        c = A(I(1 if fail else 0), B(k))
        tg = "01" if tagged else "-"
        detached = rng.random() < 0.4
        later = [A(T("unprotected"), uh)] if rng.random() < 0.3 else []
        if bt == "CoseSign1":
            if detached:
                ops = [o for o in setup if o[1][0][1] != b"payload"] + [A(T("try_create_detached_signature" if fail or rng.random() < 0.5 else "create_detached_signature"), B(pl), B(aad), c)] + later
                want_tbs = pyspec.sig_structure("CoseSign1", pb, None, aad, pl)
                args = (pl, aad)
            else:
                ops = setup + [A(T("payload"), B(pl)), A(T("try_create_signature" if fail or rng.random() < 0.5 else "create_signature"), B(aad), c)] + later
                want_tbs = pyspec.sig_structure("CoseSign1", pb, None, aad, pl); args = (aad,)
            if fail and ops[-1 - len(later)][1][0][1].startswith(b"create"): fail = False; c = A(I(0), B(k)); ops[-1 - len(later)] = ('a', ops[-1 - len(later)][1][:-1] + [c])
            exp = "fail" if fail else None
            out.append(case("buildrt", bt, enc(('a', ops)), tg, *args, fam="sign1" + ("-detached" if detached else ""),
                            **({"expect": "fail"} if fail else {"check": (lambda cc, o, w=want_tbs, kk=k: None if o.endswith(" %s %s" % ((kk + w).hex(), w.hex())) else "verifier did not receive (signature, to-be-signed bytes given to the signer)")})))
            if not fail:
                # perturbed AAD must change what is handed over
                aad2 = aad + b"\x00"
                a2 = (pl, aad2) if detached else (aad2,)
                out.append(case("buildrt", bt, enc(('a', ops)), tg, *a2, fam="sign1-perturbed-aad",
                                check=(lambda cc, o, w=want_tbs: None if not o.endswith(" " + w.hex()) else "changed AAD gave the same bytes")))
        elif bt == "CoseSign":
            nsig = rng.choice([1, 2, 3]); ops = list(setup)
            ops = [o for o in ops if not (detached and o[1][0][1] == b"payload")]
            if not detached: ops.append(A(T("payload"), B(pl)))
            sps = []
            for i in range(nsig):
                if rng.random() < 0.35:
                    # a signer taken from a received message: its protected header carries the wire bytes, which are what
                    # is signed, what is emitted and what is verified
                    sp = wire_protected(rng); spb = sp[1][0][1]
                else:
                    sph = hdr_arg(rng); spb = b"" if pyspec.header_empty(sph) else enc(pyspec.header_map(sph)); sp = d_protected(None, sph)
                sg = d_signature(sp, hdr_arg(rng), b"")
                ki = rbytes(rng, 2); sps.append((spb, ki))
                if detached: ops.append(A(T(rng.choice(["add_detached_signature", "try_add_detached_signature"])), sg, B(pl), B(aad), A(I(0), B(ki))))
                else: ops.append(A(T(rng.choice(["add_created_signature", "try_add_created_signature"])), sg, B(aad), A(I(0), B(ki))))
            w = rng.randrange(nsig)
            want_tbs = pyspec.sig_structure("CoseSignature", pb, sps[w][0], aad, pl)
            args = (bytes([w]), pl, aad) if detached else (bytes([w]), aad)
            out.append(case("buildrt", bt, enc(('a', ops)), tg, *args, fam="sign" + ("-detached" if detached else ""),
                            check=(lambda cc, o, wt=want_tbs, kk=sps[w][1]: None if o.endswith(" %s %s" % ((kk + wt).hex(), wt.hex())) else "verifier did not receive (signature, to-be-signed bytes given to that signer)")))
        elif bt in ("CoseMac0", "CoseMac"):
            ops = setup + [A(T("payload"), B(pl)), A(T("try_create_tag" if fail or rng.random() < 0.5 else "create_tag"), B(aad), c)] + later
            if fail and ops[-1 - len(later)][1][0][1] == b"create_tag": fail = False
            want = pyspec.mac_structure(bt, pb, aad, pl)
            out.append(case("buildrt", bt, enc(('a', ops)), tg, aad, fam=bt,
                            **({"expect": "fail"} if fail else {"check": (lambda cc, o, w=want, kk=k: None if o.endswith(" %s %s" % ((kk + w).hex(), w.hex())) else "verify did not receive (tag, to-be-MACed bytes given at creation)")})))
        else:
            ctx = bt if bt != "CoseRecipient" else rng.choice(["EncRecipient", "MacRecipient", "RecRecipient"])
            name = "try_create_ciphertext" if fail or rng.random() < 0.5 else "create_ciphertext"
            if bt == "CoseRecipient":
                ops = setup + [A(T(name), T(ctx), B(pl), B(aad), c)] + later; args = (tstr(ctx), aad)
            else:
                ops = setup + [A(T(name), B(pl), B(aad), c)] + later; args = (aad,)
            want = pyspec.enc_structure(ctx, pb, aad)
            ct = k + bytes([len(pl) % 256]) + pl + want
            out.append(case("buildrt", bt, enc(('a', ops)), tg, *args, fam=bt,
                            **({"expect": "fail"} if fail else {"check": (lambda cc, o, w=want, ctt=ct: None if o.endswith(" %s %s" % (ctt.hex(), w.hex())) else "decrypt did not receive (ciphertext, additional data given at creation)")})))
    out += field_population_cases(("sign", "mac", "enc"))
    out += override_cases(("sign", "mac", "enc"))
    # several signers that look alike (same key id in the unprotected header, same or different algorithm, identical
    # twins included): every signer added is kept, at its position, and verification at index i receives signer i's own
    # signature and to-be-signed bytes
    aad, pl = b"external aad", b"the payload"
    algs = [-7, -35, -36, -8]
    for n in (2, 3, 4):
        for same_prot in (False, True):
            for kid in (b"same-kid", b""):
                for detached in (False, True):
                    for tagged in (False, True):
                        ops = [A(T("protected"), d_header(alg=d_reg(1, -7)))]
                        pb = enc(pyspec.header_map(d_header(alg=d_reg(1, -7))))
                        if not detached: ops.append(A(T("payload"), B(pl)))
                        sps = []
                        for i in range(n):
                            sph = d_header(alg=d_reg(1, algs[0 if same_prot else i]))
                            spb = enc(pyspec.header_map(sph))
                            sg = d_signature(d_protected(None, sph), d_header(kid=kid), b"")
                            ki = bytes([0x30 + i, 0x31 + i]); sps.append((spb, ki))
                            if detached: ops.append(A(T("add_detached_signature" if i % 2 else "try_add_detached_signature"), sg, B(pl), B(aad), A(I(0), B(ki))))
                            else: ops.append(A(T("add_created_signature" if i % 2 else "try_add_created_signature"), sg, B(aad), A(I(0), B(ki))))
                        for w in range(n):
                            want_tbs = pyspec.sig_structure("CoseSignature", pb, sps[w][0], aad, pl)
                            args = (bytes([w]), pl, aad) if detached else (bytes([w]), aad)
                            out.append(case("buildrt", "CoseSign", enc(('a', ops)), "01" if tagged else "-", *args, fam="alike-signers" + ("-detached" if detached else ""),
                                            check=(lambda cc, o, wt=want_tbs, kk=sps[w][1]: None if o.endswith(" %s %s" % ((kk + wt).hex(), wt.hex())) else "verifier did not receive (signature, to-be-signed bytes given to that signer)")))
    # every registered algorithm (plus private-use and text ones) named in the protected bucket, the unprotected bucket
    # or both, with a non-empty protected header: what the creator was given is what decrypt / verify hands over
    import tables as _tb
    aad, pl = b"external aad", b"the payload"
    algs = [d_reg(1, v) for v in sorted(_tb.REG["Algorithm"])] + [d_reg(0, -65537), d_reg(2, "custom")]
    for ai, a in enumerate(algs):
        for where in ("unprotected", "protected", "both"):
            ph = d_header(alg=a if where != "unprotected" else None, kid=b"pk"); uh = d_header(alg=a) if where != "protected" else D_EMPTY_HEADER
            pb = enc(pyspec.header_map(ph)); k = b"kk"
            ctx = ("EncRecipient", "MacRecipient", "RecRecipient")[ai % 3]
            want = pyspec.enc_structure(ctx, pb, aad); ct = k + bytes([len(pl) % 256]) + pl + want
            ops = [A(T("protected"), ph), A(T("unprotected"), uh), A(T("create_ciphertext"), T(ctx), B(pl), B(aad), A(I(0), B(k)))]
            out.append(case("buildrt", "CoseRecipient", enc(('a', ops)), "-", tstr(ctx), aad, fam="alg-sweep:CoseRecipient",
                            check=(lambda cc, o, w=want, ctt=ct: None if o.endswith(" %s %s" % (ctt.hex(), w.hex())) else "decrypt did not receive (ciphertext, additional data given at creation)")))
            if where == "unprotected" or ai % 4 == 0:
                want = pyspec.enc_structure("CoseEncrypt0", pb, aad); ct = k + bytes([len(pl) % 256]) + pl + want
                ops = [A(T("protected"), ph), A(T("unprotected"), uh), A(T("create_ciphertext"), B(pl), B(aad), A(I(0), B(k)))]
                out.append(case("buildrt", "CoseEncrypt0", enc(('a', ops)), "-", aad, fam="alg-sweep:CoseEncrypt0",
                                check=(lambda cc, o, w=want, ctt=ct: None if o.endswith(" %s %s" % (ctt.hex(), w.hex())) else "decrypt did not receive (ciphertext, additional data given at creation)")))
                want = pyspec.mac_structure("CoseMac0", pb, aad, pl)
                ops = [A(T("protected"), ph), A(T("unprotected"), uh), A(T("payload"), B(pl)), A(T("create_tag"), B(aad), A(I(0), B(k)))]
                out.append(case("buildrt", "CoseMac0", enc(('a', ops)), "-", aad, fam="alg-sweep:CoseMac0",
                                check=(lambda cc, o, w=want, kk=k: None if o.endswith(" %s %s" % ((kk + w).hex(), w.hex())) else "verify did not receive (tag, to-be-MACed bytes given at creation)")))
                want = pyspec.sig_structure("CoseSign1", pb, None, aad, pl)
                ops = [A(T("protected"), ph), A(T("unprotected"), uh), A(T("payload"), B(pl)), A(T("create_signature"), B(aad), A(I(0), B(k)))]
                out.append(case("buildrt", "CoseSign1", enc(('a', ops)), "-", aad, fam="alg-sweep:CoseSign1",
                                check=(lambda cc, o, w=want, kk=k: None if o.endswith(" %s %s" % ((kk + w).hex(), w.hex())) else "verifier did not receive (signature, to-be-signed bytes given to the signer)")))
    return out

# ================================================================= C02
def desc_slots(ty, v):
    """all retained protected byte strings in a reflected (shown) message, in document order"""
    out = []
    def prot(p):
        od, h = p[1]
        out.append(od[1] if od[0] == 'b' else None); hdr(h)
    def hdr(h):
        for sgn in h[1][6][1]: sig(sgn)
    def sig(sg):
        prot(sg[1][0]); hdr(sg[1][1])
    def rec(r):
        prot(r[1][0]); hdr(r[1][1])
        for x in r[1][3][1]: rec(x)
    x = v[1]
    if ty == "Header": hdr(v)
    elif ty == "CoseSignature": sig(v)
    elif ty in ("CoseSign1", "CoseMac0", "CoseEncrypt0"): prot(x[0]); hdr(x[1])
    elif ty == "CoseSign":
        prot(x[0]); hdr(x[1])
        for sg in x[3][1]: sig(sg)
    elif ty == "CoseMac":
        prot(x[0]); hdr(x[1])
        for r in x[4][1]: rec(r)
    elif ty == "CoseEncrypt":
        prot(x[0]); hdr(x[1])
        for r in x[3][1]: rec(r)
    elif ty == "CoseRecipient": rec(v)
    elif ty == "SuppPubInfo": prot(x[1])
    return out

def cases_C02(rng, tier):
    out = []
    gid = 0
    for _ in range(Q(tier, 250, 3000)):
        entries = gen_header_entries(rng, 1, 0)
        m = ('m', entries)
        shuffled = list(entries); rng.shuffle(shuffled)
        encs = [enc(m), enc(m, rng), enc(m, rng), enc(('m', shuffled), rng)]
        if not entries: encs += [b"", b"\xa0", b"\xbf\xff"]
        gid += 1
        inner_p = rng.choice(encs)
        for p in encs:
            carriers = [
                ("CoseSign1", A(B(p), M(), B(b"pl"), B(b"sg")), [p]),
                ("CoseMac0", A(B(p), M(), B(b"pl"), B(b"tg")), [p]),
                ("CoseEncrypt0", A(B(p), M(), B(b"ct")), [p]),
                ("CoseSign", A(B(p), M(), B(b"pl"), A(A(B(inner_p), M(), B(b"s1")), A(B(p), M(), B(b"s2")))), [p, inner_p, p]),
                ("CoseEncrypt", A(B(inner_p), M(), B(b"ct"), A(A(B(p), M(), NULL, A(A(B(inner_p), M(), NULL))))), [inner_p, p, inner_p]),
                ("CoseMac", A(B(p), M(), B(b"pl"), B(b"t"), A(A(B(inner_p), M(), NULL))), [p, inner_p]),
                ("CoseSign1", A(B(inner_p), M((I(7), A(B(p), M(), B(b"cs")))), NULL, B(b"")), [inner_p, p]),
                ("CoseSign1", A(B(enc(M((I(7), A(A(B(p), M(), B(b"c1")), A(B(inner_p), M(), B(b"c2"))))))), M(), NULL, B(b"")), None),
                ("SuppPubInfo", A(I(128), B(p)), [p]),
                ("CoseSignature", A(B(p), M((I(7), A(B(inner_p), M((I(7), A(B(p), M(), B(b"")))), B(b"")))), B(b"")), [p, inner_p, p]),
            ]
            ty, v, slots = rng.choice(carriers)
            b = enc(v, None if rng.random() < 0.5 else rng)
            def chk(c, o, ty=ty, slots=slots):
                if slots is None or not o.startswith("ok "): return None
                got = desc_slots(ty, parse_show(o[3:]))
                it = iter(got)     # the header content may itself nest further protected headers
                return None if all(any(x == sl for x in it) for sl in slots) else "retained protected bytes %s differ from the wire bytes %s" % (
                    [x.hex() if x is not None else None for x in got], [x.hex() for x in slots])
            out.append(case("dec", ty, b, fam="retained:" + ty, check=chk))
            # re-encoding writes the same bytes back
            def chk_rt(c, o, slots=slots):
                if slots is None or not o.startswith("ok "): return None
                b1 = bytes.fromhex(o.split(" ")[1])
                for sl in slots:
                    if (head(2, len(sl)) + sl) not in b1: return "re-encoding does not contain the protected bytes %s" % sl.hex()
                return None
            out.append(case("rt", ty, b, fam="reencoded:" + ty, check=chk_rt))
            # parsed view identical for every encoding of the same content
            out.append(case("dec", "CoseSign1", enc(A(B(p), M(), NULL, B(b""))), fam="parsed-view", group=("view", gid),
                            view=True))
            # and what is signed / MACed / encrypted uses those bytes
            aad = rbytes(rng)
            out.append(case("helperhex", "sign1.tbs_data", enc(A(B(p), M(), B(b"pl"), B(b"sg"))), aad, fam="tbs-uses-wire-bytes",
                            expect="ok " + pyspec.sig_structure("CoseSign1", p, None, aad, b"pl").hex()))
            out.append(case("helperhex", "mac0.verify_tag", enc(A(B(p), M(), B(b"pl"), B(b"tg"))), aad, fam="tbm-uses-wire-bytes",
                            expect="ok 7467 " + pyspec.mac_structure("CoseMac0", p, aad, b"pl").hex()))
            out.append(case("helperhex", "encrypt0.decrypt", enc(A(B(p), M(), B(b"ct"))), aad, fam="aad-uses-wire-bytes",
                            expect="ok 6374 " + pyspec.enc_structure("CoseEncrypt0", p, aad).hex()))
            out.append(case("helperhex", "sign.verify_signature", enc(A(B(inner_p), M(), B(b"pl"), A(A(B(p), M(), B(b"s1"))))), b"\x00", aad,
                            fam="signer-uses-wire-bytes", expect="ok 7331 " + pyspec.sig_structure("CoseSignature", inner_p, p, aad, b"pl").hex()))
            # the remaining entry points: detached variants, tbs_* of COSE_Sign, COSE_Mac, COSE_Encrypt, recipients
            dpl = b"detached"
            out.append(case("helperhex", "sign1.tbs_detached_data", enc(A(B(p), M(), NULL, B(b"sg"))), dpl, aad, fam="detached-uses-wire-bytes",
                            expect="ok " + pyspec.sig_structure("CoseSign1", p, None, aad, dpl).hex()))
            out.append(case("helperhex", "sign1.verify_detached_signature", enc(A(B(p), M(), NULL, B(b"sg"))), dpl, aad, fam="detached-uses-wire-bytes",
                            expect="ok 7367 " + pyspec.sig_structure("CoseSign1", p, None, aad, dpl).hex()))
            sgn = enc(A(B(inner_p), M(), NULL, A(A(B(b""), M(), B(b"s0")), A(B(p), M(), B(b"s1")))))
            want = pyspec.sig_structure("CoseSignature", inner_p, p, aad, dpl).hex()
            out.append(case("helperhex", "sign.tbs_detached_data", sgn, dpl, aad, b"\x01", fam="detached-uses-wire-bytes", expect="ok " + want))
            out.append(case("helperhex", "sign.verify_detached_signature", sgn, b"\x01", dpl, aad, fam="detached-uses-wire-bytes", expect="ok 7331 " + want))
            sgn2 = enc(A(B(inner_p), M(), B(b"pl"), A(A(B(b""), M(), B(b"s0")), A(B(p), M(), B(b"s1")))))
            out.append(case("helperhex", "sign.tbs_data", sgn2, aad, b"\x01", fam="signer-uses-wire-bytes",
                            expect="ok " + pyspec.sig_structure("CoseSignature", inner_p, p, aad, b"pl").hex()))
            out.append(case("helperhex", "mac.verify_tag", enc(A(B(p), M(), B(b"pl"), B(b"tg"), A(A(B(inner_p), M(), NULL)))), aad, fam="tbm-uses-wire-bytes",
                            expect="ok 7467 " + pyspec.mac_structure("CoseMac", p, aad, b"pl").hex()))
            out.append(case("helperhex", "encrypt.decrypt", enc(A(B(p), M(), B(b"ct"), A(A(B(inner_p), M(), NULL)))), aad, fam="aad-uses-wire-bytes",
                            expect="ok 6374 " + pyspec.enc_structure("CoseEncrypt", p, aad).hex()))
            for rc in ("EncRecipient", "MacRecipient", "RecRecipient"):
                out.append(case("helperhex", "recipient.decrypt", enc(A(B(p), M(), B(b"ct"))), tstr(rc), aad, fam="aad-uses-wire-bytes",
                                expect="ok 6374 " + pyspec.enc_structure(rc, p, aad).hex()))
    # every spelling of the EMPTY header (zero-length, wrapped empty map in every width, indefinite) in every
    # carrier and nesting position, decoded, re-encoded and fed to the structure functions
    empties = [b"", b"\xa0", b"\xbf\xff", b"\xb8\x00", b"\xb9\x00\x00", b"\xba\x00\x00\x00\x00", b"\xbb" + b"\x00" * 8]
    small = [enc(M((I(1), I(-7)))), b"\xbf\x01\x26\xff", b"\xa1\x18\x01\x38\x06", b"\xa1\x04\x5f\x41\x31\x41\x32\xff"]
    for p in empties + small:
      for U in (M(), M((I(1), I(-3))), M((I(1), I(-6))), M((I(1), I(-25)), (I(4), B(b"k")))):
        for q in (b"", b"\xa0", small[1]):
            carriers = [
                ("CoseSign1", A(B(p), U, B(b"pl"), B(b"sg")), [p]),
                ("CoseMac0", A(B(p), U, B(b"pl"), B(b"tg")), [p]),
                ("CoseEncrypt0", A(B(p), U, B(b"ct")), [p]),
                ("CoseSignature", A(B(p), U, B(b"sg")), [p]),
                ("CoseRecipient", A(B(p), U, NULL, A(A(B(q), U, NULL))), [p, q]),
                ("CoseSign", A(B(q), U, B(b"pl"), A(A(B(p), U, B(b"s1")), A(B(q), U, B(b"s2")))), [q, p, q]),
                ("CoseEncrypt", A(B(q), U, B(b"ct"), A(A(B(p), U, NULL, A(A(B(p), U, NULL))))), [q, p, p]),
                ("CoseMac", A(B(p), U, B(b"pl"), B(b"t"), A(A(B(q), U, NULL), A(B(p), U, NULL))), [p, q, p]),
                ("CoseSign1", A(B(q), M((I(7), A(B(p), U, B(b"cs")))), NULL, B(b"")), [q, p]),
                ("CoseSign1", A(B(q), M((I(7), A(A(B(p), U, B(b"c1")), A(B(q), U, B(b"c2"))))), NULL, B(b"")), [q, p, q]),
                ("SuppPubInfo", A(I(128), B(p)), [p]),
                ("SuppPubInfo", A(I(128), B(p), B(b"o")), [p]),
                ("CoseKdfContext", A(I(1), A(NULL, NULL, NULL), A(NULL, NULL, NULL), A(I(128), B(p))), [p]),
                ("CoseKdfContext", A(I(1), A(NULL, NULL, NULL), A(NULL, NULL, NULL), A(I(128), B(p), B(b"")), B(b"x")), [p]),
            ]
            for ty, v, slots in carriers:
                b = enc(v)
                def chk_rt2(c, o, slots=slots):
                    if not o.startswith("ok "): return "a well-formed carrier was rejected"
                    b1 = bytes.fromhex(o.split(" ")[1]); pos = 0
                    for sl in slots:      # in order of appearance
                        k = b1.find(head(2, len(sl)) + sl, pos)
                        if k < 0: return "re-encoding does not contain the protected bytes %s (in order)" % (sl.hex() or "''")
                        pos = k + 1
                    return None
                out.append(case("rt", ty, b, fam="empty-spellings:" + ty, check=chk_rt2, expect_re=r"ok " + b.hex() + r" .*"))
    # builders drop retained bytes
    for _ in range(Q(tier, 40, 400)):
        h = gen_desc_header(rng, 0)
        want = "h" if pyspec.header_empty(h) else "h" + enc(pyspec.header_map(h)).hex()
        ops = [A(T("protected"), h), A(T("payload"), B(b"p"))]
        out.append(case("build", "CoseSign1", enc(('a', ops)), fam="builder-protected-has-no-wire-bytes",
                        check=lambda c, o: None if o.startswith("ok [[N,") else "builder-made protected header carries original_data"))
    # counter-signatures of decoded messages: context CounterSignature, body = the message's protected bytes,
    # sign_protected = the counter-signature's protected bytes as received (nested one level down, or in the
    # unprotected header), every spelling
    inner_spellings = [b"", b"\xa0", b"\xbf\xff", b"\xb8\x00", b"\xa1\x01\x26", b"\xbf\x01\x26\xff", b"\xa2\x04\x41\x6b\x01\x26", b"\xa1\x18\x01\x38\x06"]
    for ip in inner_spellings:
        for form in ("single", "list"):
            for where in ("protected", "unprotected"):
                for style in (None, "noncanon"):
                    cs0 = A(B(ip), M(), B(b"cs0")); cs1 = A(B(b"\xa1\x04\x41\x31"), M(), B(b"cs1"))
                    v7 = cs0 if form == "single" else A(cs1, cs0)
                    k = 0 if form == "single" else 1
                    hmap = M((I(1), I(-7)), (I(7), v7))
                    hb = enc(hmap, rng if style else None, style="nobignum")
                    if where == "protected":
                        outer = hb; msg = enc(A(B(hb), M(), B(b"pl"), B(b"sg")))
                    else:
                        outer = b"\xa1\x01\x26"; msg = enc(A(B(outer), ("raw", hb), B(b"pl"), B(b"sg")))
                    want = pyspec.sig_structure("CounterSignature", outer, ip, b"aad", b"payload")
                    out.append(case("helperhex", "countersig.tbs", msg, bytes([k]), b"aad", b"payload", fam="countersig-uses-wire-bytes",
                                    impl_only=True, expect="ok " + want.hex()))
    # retained protected bytes of every head-width boundary length are re-emitted and signed as they are
    for L, d, wire in boundary_prots():
        if d[1][0] == NULL: continue
        m1 = enc(A(B(wire), M(), B(b"pl"), B(b"sg")))
        out.append(case("rt", "CoseSign1", m1, fam="length-boundaries:rt", expect="ok %s T T" % m1.hex()))
        out.append(case("helperhex", "sign1.tbs_data", m1, b"aad", fam="length-boundaries:tbs", expect="ok " + pyspec.sig_structure("CoseSign1", wire, None, b"aad", b"pl").hex()))
        m2 = enc(A(B(wire), M(), NULL))
        out.append(case("helperhex", "encrypt0.decrypt", m2 if False else enc(A(B(wire), M(), B(b"ct"))), b"aad", fam="length-boundaries:aad", impl_only=True,
                        expect="ok 6374 " + pyspec.enc_structure("CoseEncrypt0", wire, b"aad").hex()))
    out += edited_twins(out)
    # a signer taken from a received message (retained, non-canonical protected bytes) used as the template of each
    # signing entry point of the COSE_Sign builder: the stored signer keeps those bytes (they were signed) and the
    # encoded message carries them
    import gen as _g
    _g.wire_protected(rng)
    for pb, h in _g.WIRE_PROTS:
        for opn, det in (("add_created_signature", False), ("try_add_created_signature", False), ("add_detached_signature", True), ("try_add_detached_signature", True)):
            for uh in (D_EMPTY_HEADER, d_header(kid=b"signer")):
                sg = d_signature(d_protected(pb, h), uh, b"")
                ops = [A(T("protected"), d_header(alg=d_reg(1, -7)))] + ([] if det else [A(T("payload"), B(b"pl"))])
                ops.append(A(T(opn), sg, B(b"pl"), B(b"aad"), A(I(0), B(b"kk"))) if det else A(T(opn), sg, B(b"aad"), A(I(0), B(b"kk"))))
                tbs = pyspec.sig_structure("CoseSignature", enc(pyspec.header_map(d_header(alg=d_reg(1, -7)))), pb, b"aad", b"pl")
                def chk(c, o, pb=pb, tbs=tbs):
                    if ("h" + (b"kk" + tbs).hex()) not in o: return "signature not created over the structure holding the retained signer bytes"
                    if ("[h%s," % pb.hex()) not in o: return "the stored signer no longer carries the retained protected bytes %s" % pb.hex()
                    return None
                out.append(case("build", "CoseSign", enc(('a', ops)), fam="signer-template-retained:" + opn, check=chk))
                out.append(case("buildrt", "CoseSign", enc(('a', ops)), "-", *((b"\x00", b"pl", b"aad") if det else (b"\x00", b"aad")), fam="signer-template-retained-rt:" + opn,
                                check=(lambda c, o, w=tbs: None if o.endswith(" %s %s" % ((b"kk" + w).hex(), w.hex())) else "verifier did not receive the bytes that were signed")))
    out += rebuilt_cases(("sign", "mac", "enc"))
    return out

def post_C02(cases, impl):
    probs = []; first = {}
    for c, o in zip(cases, impl):
        if not c.get("view") or not o.startswith("ok "): continue
        v = parse_show(o[3:])
        hv = v[1][0][1][1]                     # the parsed header of the protected slot
        # extra parameters are kept in wire order (C08), so a reordered map legitimately reorders
        # them: compare typed fields exactly and the extras as a multiset
        view = pyspec.show(('a', hv[1][:7])) + "|" + ",".join(sorted(pyspec.show(x) for x in hv[1][7][1]))
        g = c["group"]
        if g in first and first[g][0] != view:
            probs.append((c, o, "parsed view of the protected header depends on its encoding: %s vs %s" % (first[g][0][:120], view[:120])))
        first.setdefault(g, (view, c))
    return probs

# ================================================================= C01
def nested_header(d, form="single", inner=b"\xa0"):
    """{7: sig} nested d times through the signature's protected bstr; form: the counter-signature
    parameter as one COSE_Signature ("single"), as a one-element list ("list"), alternating ("mixed"),
    or a two-element list whose second signature carries the nesting ("list2"); `inner` = innermost header map"""
    for i in range(d):
        sig = b"\x83" + head(2, len(inner)) + inner + b"\xa0\x40"
        f = form if form != "mixed" else ("single" if i % 2 else "list")
        if f == "single": inner = b"\xa1\x07" + sig
        elif f == "list": inner = b"\xa1\x07\x81" + sig
        else: inner = b"\xa1\x07\x82" + b"\x83\x40\xa0\x40" + sig
    return inner

def helper_calls(rng, ty, b):
    aad = rbytes(rng)
    if ty == "CoseSign1":
        return [("sign1.tbs_data", (aad,), True), ("sign1.verify_signature", (aad,), True)]
    if ty == "CoseMac0": return [("mac0.verify_tag", (aad,), None)]
    if ty == "CoseMac": return [("mac.verify_tag", (aad,), None)]
    if ty == "CoseEncrypt": return [("encrypt.decrypt", (aad,), None)]
    if ty == "CoseEncrypt0": return [("encrypt0.decrypt", (aad,), None)]
    if ty == "CoseRecipient": return [("recipient.decrypt", (tstr("EncRecipient"), aad), None)]
    return []

def cases_C01(rng, tier):
    out = []
    types = [t for t in ALL_TYPES]
    # exhaustive short strings
    for ty in types:
        for n in range(256):
            out.append(case("dec", ty, bytes([n]), fam="exhaustive-1"))
        out.append(case("dec", ty, b"", fam="exhaustive-0"))
    two = [bytes([a, b]) for a in range(256) for b in range(256)]
    if tier == "quick":
        for ty in types:
            for b in rng.sample(two, 250): out.append(case("dec", ty, b, fam="sample-2"))
    else:
        for ty in types:
            for b in two: out.append(case("dec", ty, b, fam="exhaustive-2"))
    for ty in TAGGED_TYPES:
        for n in range(256): out.append(case("dectag", ty, bytes([0xd8 if MSG_TAG[ty] > 23 else 0xc0 + MSG_TAG[ty]]) + ([bytes([MSG_TAG[ty]])] if MSG_TAG[ty] > 23 else [b""])[0] + bytes([n]), fam="tagged-exhaustive-1"))
    # structured + mutated, every accepted value re-encoded / cloned / compared / handed to helpers
    base = corpus(rng, Q(tier, 500, 6000))
    for ty, b in base:
        for bb in (b, mutate(rng, b), mutate(rng, mutate(rng, b))):
            out.append(case("dec", ty, bb, fam="structured"))
            out.append(case("rt", ty, bb, fam="structured-reencode"))
            for fn, args, _ in helper_calls(rng, ty, bb):
                # documented preconditions are the model's: a panic is accepted only where the model panics too
                out.append(case("helperhex", fn, bb, *args, fam="helper-on-decoded", panic_ok_if_model=True))
            if ty == "CoseSign":
                aad = rbytes(rng)
                out.append(case("helperhex", "sign.verify_signature", bb, b"\x00", aad, fam="helper-on-decoded", panic_ok_if_model=True))
                out.append(case("helperhex", "sign.tbs_data", bb, aad, b"\x01", fam="helper-on-decoded", panic_ok_if_model=True))
    # arity / emptiness guards
    for ty in MSG_TYPES + ["PartyInfo", "SuppPubInfo", "CoseKdfContext"]:
        for ar in range(0, 8):
            out.append(case("dec", ty, enc(('a', [B(b"")] * ar)), fam="arity"))
            out.append(case("dec", ty, enc(('a', [M()] * ar)), fam="arity"))
    for v in (A(), A(A()), A(I(1)), A(B(b"")), A(B(b""), M()), A(A(), A())):
        out.append(case("dec", "Header", enc(M((I(7), v))), fam="countersig-shape"))
    # CBOR nesting around ciborium's limit, declared-length bombs
    for d in (254, 255, 256, 257, 258, 300):
        for opener, closer in ((b"\x81", b"\x00"), (b"\xa1\x00", b"\x00"), (b"\xc1", b"\x00"), (b"\x9f", b"\x00" + b"\xff" * d), (b"\x5f", b"\x40" + b"\xff" * d)):
            b = opener * d + closer
            for ty in ("Value", "Header", "CoseSign1", "CoseKey"):
                out.append(case("dec", ty, b, fam="cbor-nesting"))
    for b in (b"\x9b" + b"\xff" * 8, b"\x5b" + b"\xff" * 8 + b"\x00", b"\xbb" + b"\x7f" + b"\xff" * 7, b"\x7b" + b"\x00" * 7 + b"\x10" + b"a",
              b"\x9a\xff\xff\xff\xff" + b"\x00" * 50, b"\xbf", b"\x9f", b"\x5f", b"\x5f\x5f\x5f", b"\xc2\x5f", b"\xc2\x50" + b"\xff" * 16, b"\xc3\x50" + b"\xff" * 16):
        for ty in ("Value", "Header", "CoseSign1", "CoseKey", "ClaimsSet", "CoseKdfContext"):
            out.append(case("dec", ty, b, fam="length-bomb"))
    # protected headers nested through counter-signatures (finding F1, repaired): model up to 40
    for form in ("single", "list", "mixed", "list2"):
        for d in list(range(0, 24)) + [30, 40]:
            b = nested_header(d, form)
            out.append(case("dec", "Header", b, fam="protected-nesting:" + form))
            out.append(case("dec", "CoseSign1", enc(A(B(b), M(), NULL, B(b""))), fam="protected-nesting:" + form))
            out.append(case("dec", "CoseMac", enc(A(B(b""), M(), NULL, B(b""), A(A(B(b), M(), NULL)))), fam="protected-nesting:" + form))
        for d in (100, 1000, 5000) + ((20000, 100000) if tier != "quick" else ()):
            b = nested_header(d, form)
            out.append(case("dec", "Header", b, fam="protected-nesting-deep:" + form, impl_only=True, expect_re=r"err:\w+"))
            out.append(case("dec", "CoseSign1", enc(A(B(b), M(), NULL, B(b""))), fam="protected-nesting-deep:" + form, impl_only=True, expect_re=r"err:\w+"))
    for n in ((1 << 16), (1 << 20)) + (((1 << 24),) if tier != "quick" else ()):
        big = head(2, n) + bytes(n)
        out.append(case("dec", "Value", big, fam="large-input", impl_only=True, expect_re=r"ok .*"))
        out.append(case("dec", "CoseSign1", enc(A(B(b""), M(), ("raw", big), B(b""))), fam="large-input", impl_only=True, expect_re=r"ok .*"))
        out.append(case("dec", "Header", head(4, 23) * 1 + bytes(n), fam="large-input", impl_only=True, expect_re=r"err:\w+"))
    for ty, b in combos.wide_inputs():
        out.append(case('timedec', ty, b, fam='wide:' + ty, impl_only=True, expect='ok accepted'))
    # N-fold wrappers that no CBOR recursion limit sees (each level is a flat item parsed afresh): bstr in bstr in ...
    # in every protected-header position; plus bstr-wrapped arrays / maps alternating
    for n in (1, 2, 16, 17, 300, 3000, 20000):
        inner = b"\xa0"
        for _ in range(n): inner = head(2, len(inner)) + inner
        alt = b"\xa0"
        for i in range(min(n, 3000)): alt = (head(2, len(alt)) + alt) if i % 2 else (b"\x81" + alt)
        for w in (inner, alt):
            out.append(case("dec", "CoseSign1", b"\x84" + w + b"\xa0\xf6\x40", fam="wrapped-protected"))
            out.append(case("dectag", "CoseEncrypt0", b"\xd0\x83" + w + b"\xa0\xf6", fam="wrapped-protected"))
            out.append(case("dec", "CoseMac", b"\x85\x40\xa0\xf6\x40\x81\x83" + w + b"\xa0\xf6", fam="wrapped-protected"))
            out.append(case("dec", "CoseKdfContext", b"\x84\x01\x83\xf6\xf6\xf6\x83\xf6\xf6\xf6\x82\x00" + w, fam="wrapped-protected"))
            out.append(case("dec", "Header", b"\xa1\x07\x83" + w + b"\xa0\x40", fam="wrapped-protected"))
    ALLT = ["Header", "ProtectedHeader", "CoseKey", "CoseKeySet", "ClaimsSet", "CoseSign1", "CoseMac0", "CoseEncrypt0", "CoseSign", "CoseMac",
            "CoseEncrypt", "CoseRecipient", "CoseSignature", "CoseKdfContext", "SuppPubInfo", "PartyInfo", "Label"]
    for n in (1, 2, 50, 3000, 60000):
        for tagn in (24, 55799, None):
            w = b"\xa0"
            for _ in range(n):
                w = head(2, len(w)) + w
                if tagn is not None: w = head(6, tagn) + w
            for ty in ALLT:
                out.append(case("dec", ty, w, fam="wrapped-toplevel", expect_re=r"err:\w+", impl_only=(n > 3000)))
            if n <= 3000:
                out.append(case("dec", "CoseKeySet", b"\x81" + w, fam="wrapped-toplevel", expect_re=r"err:\w+"))
    out += extreme_pair_cases()
    out += text_sweep_cases(("ClaimsSet", "Header", "CoseKey", "CoseKdfContext"))
    return out
# ================================================================= registry
PROPS = {}
def reg(pid, gen, **kw):
    d = {"gen": gen}; d.update(kw); PROPS[pid] = d
reg("C03", cases_C03, post=post_injective)
reg("C04", cases_C04, post=post_injective)
reg("C05", cases_C05, post=post_injective)
reg("C07", cases_C07, post=post_C07)
reg("C08", cases_C08, post=post_groups)
reg("C09", cases_C09)
reg("C10", cases_C10, post=post_groups)
reg("C18", cases_C18, post=post_groups)
reg("C11", cases_C11)
reg("C12", cases_C12)
reg("C20", cases_C20, post=post_C20, extra=extra_C20)
reg("C19", cases_C19)
reg("C06", cases_C06)
reg("C01", cases_C01, threaded=True, std_too=True)
reg("C02", cases_C02, post=post_C02)
reg("C13", cases_C13, post=post_C13)
reg("C14", cases_C14, post=post_C14)
reg("C15", cases_C15)
reg("C16", cases_C16)
reg("C17", cases_C17)
