"""Per-property case families and direct oracles.  Each `cases_Cxx(rng, tier)` returns a list of
case dicts (see gen.case).  Oracle hints understood by `judge`:
  expect        exact observation the implementation must print (independent Python spec)
  expect_re     regex the implementation's observation must match
  no_panic      the implementation must not print panic / crash / hang
  strict_err    compare error kinds between implementation and model (default: class only)
  impl_only     do not run / compare the model
  group, view   cases of one group must agree on view(observation) (encoding independence)
"""
import re, itertools
from cbor import *
from gen import *
import pyspec

Q = lambda tier, q, t: q if tier == "quick" else t

# ================================================================= judge
def judge(c, impl, model):
    """returns a list of (kind, message); empty = fine.  kind in oracle|corr"""
    bad = []
    if c.get("no_panic", True) and not c.get("may_panic"):
        if impl == "panic" or impl.startswith("crash") or impl == "hang":
            if not (model == "panic" and c.get("panic_ok_if_model")):
                bad.append(("oracle", "implementation %s" % impl))
    if impl.startswith("badcase") or impl == "badline":
        bad.append(("harness", "harness rejected the case: %s" % impl))
    if "expect" in c and impl != c["expect"]:
        if not (c.get("expect_norm") and norm(impl) == norm(c["expect"])):
            bad.append(("oracle", "expected %s" % c["expect"][:300]))
    if "expect_re" in c and not re.fullmatch(c["expect_re"], impl):
        bad.append(("oracle", "expected to match /%s/" % c["expect_re"]))
    if "check" in c:
        m = c["check"](c, impl)
        if m: bad.append(("oracle", m))
    if model is not None and not c.get("impl_only"):
        a, b = (impl, model) if c.get("strict_err") else (norm(impl), norm(model))
        if a != b:
            bad.append(("corr", "model says %s" % model[:300]))
    return bad

ERR_RE = re.compile(r"err:\w+")
def norm(s): return ERR_RE.sub("err", s)

def tstr(s): return "=" + s

# ================================================================= C16
def label_palette():
    ints = sorted(set(x for x in LATTICE if -2**63 <= x < 2**63) | {2, 10, 22, 25, 100, 1000, -2, -10, -23, -26, -100, -1000,
                  2**31, -2**31, 2**62, -2**62})
    texts = ["", "a", "b", "aa", "ab", "b" * 2, "é", "z", "a" * 23, "a" * 24, "b" * 23, "a" * 255, "a" * 256, "b" * 255,
             "中", "a" * 22 + "é", "\x00", "\x7f", "A"]
    return [I(i) for i in ints] + [T(t) for t in texts]

def lab_enc(v): return enc(v)
def cmp3(a, b): return "Lt" if a < b else ("Gt" if a > b else "Eq")

def cases_C16(rng, tier):
    pal = label_palette()
    out = []
    pairs = list(itertools.product(pal, pal))
    if tier == "quick":
        pairs = rng.sample(pairs, 2500) + [(a, a) for a in pal]
    for a, b in pairs:
        ea, eb = lab_enc(a), lab_enc(b)
        eq = "T" if a == b else "F"
        out.append(case("cmp", "label", enc(a), enc(b), fam="label", expect="ok %s %s" % (cmp3(ea, eb), eq)))
        out.append(case("cmp", "canonical", enc(a), enc(b), fam="canonical",
                        expect="ok %s %s" % (cmp3((len(ea), ea), (len(eb), eb)), eq)))
    # registry variants: Assigned / PrivateUse / Text
    def regvals(regs, privs):
        return [A(I(1), I(x)) for x in regs] + [A(I(0), I(x)) for x in privs] + [A(I(2), T(t)) for t in ["", "a", "b", "aa", "é"]]
    for kind, vals in (("regp:Algorithm", regvals(ALG_REG + [-6, -5, 24, 25, 26, -25, -26, -27], ALG_PRIV)),
                       ("regp:CwtClaimName", regvals(CLAIM_REG + [1, 7], CLAIM_PRIV)),
                       ("reg:KeyType", regvals(KTY_REG + [0], [])),
                       ("reg:CoapContentFormat", regvals(CF_REG, [])),
                       ("reg:KeyOperation", regvals(KOP_REG, []))):
        ps = list(itertools.product(vals, vals))
        if tier == "quick" and len(ps) > 500: ps = rng.sample(ps, 500)
        for a, b in ps:
            wa, wb = a[1][1], b[1][1]
            ea, eb = enc(wa), enc(wb)
            eq = "T" if a == b else "F"
            out.append(case("cmp", kind, enc(a), enc(b), fam=kind, expect="ok %s %s" % (cmp3(ea, eb), eq)))
    # triples: transitivity is implied by agreement with the encoded order; sample anyway via pairs above
    return out

# ================================================================= C17
def cases_C17(rng, tier):
    out = []
    regs = ["HeaderParameter", "HeaderAlgorithmParameter", "Algorithm", "KeyParameter", "OkpKeyParameter",
            "Ec2KeyParameter", "RsaKeyParameter", "SymmetricKeyParameter", "HssLmsKeyParameter",
            "WalnutDsaKeyParameter", "KeyType", "EllipticCurve", "KeyOperation", "CborTag", "CoapContentFormat",
            "CwtClaimName"]
    win = list(range(-700, 700)) + list(range(-65540, -65530)) + list(range(9990, 10010)) + list(range(11040, 11070)) \
        + list(range(11535, 11550)) + [2**63 - 1, -2**63, 65535, 65536, -65535, 2**31, -2**31, 55799]
    if tier != "quick":
        win = sorted(set(win) | set(range(-70000, 70000)))
    for r in regs:
        for i in win:
            out.append(case("iana", r, enc(I(i)), fam="iana:" + r))
    # label decoding at label-typed positions
    sample = [i for i in win if -66000 < i < 12000] if tier == "quick" else win
    if tier == "quick": sample = rng.sample(sample, 600) + [-65537, -65536, -65535, 0, 1, 7, 8, 2**63 - 1, -2**63]
    for i in sample:
        for ty in ("RegP:Algorithm", "RegP:CwtClaimName", "RegP:HeaderParameter", "RegP:EllipticCurve", "Reg:KeyType",
                   "Reg:CoapContentFormat", "Reg:KeyOperation", "Reg:HeaderParameter"):
            out.append(case("dec", ty, enc(I(i)), fam="label:" + ty, strict_err=True))
    for ty in ("RegP:Algorithm", "Reg:KeyType"):
        for t in TEXT_LABELS:
            out.append(case("dec", ty, enc(T(t)), fam="text:" + ty, expect_re=r"ok \[i0x2,t[0-9a-f]*\]"))
    return out

# ================================================================= C15
def int_encodings(n):
    """all head widths + bignum spellings of one integer"""
    mt, mag = (0, n) if n >= 0 else (1, -1 - n)
    encs = [head(mt, mag, w) for w in widths_for(mag)] if mag < 2**64 else []
    body = mag.to_bytes(max(1, (mag.bit_length() + 7) // 8), "big")
    for pad in (0, 1):
        bb = b"\x00" * pad + body
        if len(bb) <= 16: encs.append(head(6, 2 if n >= 0 else 3) + head(2, len(bb)) + bb)
    return encs

def cases_C15(rng, tier):
    out = []
    ints = list(LATTICE) + [rng.randrange(-2**64, 2**64) for _ in range(Q(tier, 40, 2000))] \
        + [rng.randrange(-2**63 - 1000, -2**63 + 1000) for _ in range(Q(tier, 10, 300))] \
        + [rng.randrange(2**63 - 1000, 2**63 + 1000) for _ in range(Q(tier, 10, 300))]
    for n in ints:
        in64 = -2**63 <= n < 2**63
        inu64 = 0 <= n < 2**64
        for e in int_encodings(n):
            # bare label
            out.append(case("dec", "Label", e, fam="label", strict_err=True,
                            expect=("ok i%s" % pyspec.show(I(n))[1:]) if in64 else "err:Range"))
            # extras keep the value whatever its magnitude; as header label / key label / claim name
            out.append(case("dec", "Header", enc(M((I(-70000), ("raw", e)))), fam="extra-value", strict_err=True,
                            expect="ok [N,[],N,h,h,h,[],[[i-0x11170,%s]]]" % pyspec.show(I(n))))
            out.append(case("dec", "Header", head(5, 1) + e + b"\x00", fam="header-label", strict_err=True,
                            **({} if in64 else {"expect": "err:Range"})))
            out.append(case("dec", "CoseKey", head(5, 2) + b"\x01\x01" + e + b"\x00", fam="key-label", strict_err=True,
                            **({} if in64 else {"expect": "err:Range"})))
            out.append(case("dec", "ClaimsSet", head(5, 1) + e + b"\x00", fam="claim-name", strict_err=True,
                            **({} if in64 else {"expect": "err:Range"})))
            for pos, ty, wrap in (("alg", "Header", lambda x: head(5, 1) + b"\x01" + x),
                                  ("content-format", "Header", lambda x: head(5, 1) + b"\x03" + x),
                                  ("crit", "Header", lambda x: head(5, 1) + b"\x02\x81" + x),
                                  ("kty", "CoseKey", lambda x: head(5, 1) + b"\x01" + x),
                                  ("key-op", "CoseKey", lambda x: head(5, 2) + b"\x01\x01\x04\x81" + x),
                                  ("key-alg", "CoseKey", lambda x: head(5, 2) + b"\x01\x01\x03" + x)):
                out.append(case("dec", ty, wrap(e), fam=pos, strict_err=True, **({} if in64 else {"expect": "err:Range"})))
            for k in (4, 5, 6):
                out.append(case("dec", "ClaimsSet", head(5, 1) + bytes([k]) + e, fam="timestamp", strict_err=True,
                                **({} if in64 else {"expect": "err:Range"})))
            out.append(case("dec", "PartyInfo", b"\x83\xf6" + e + b"\xf6", fam="nonce", strict_err=True,
                            expect=("ok [N,%s,N]" % pyspec.show(I(n))) if in64 else "err:Range"))
            out.append(case("dec", "SuppPubInfo", b"\x82" + e + b"\x40", fam="key-data-length", strict_err=True,
                            expect=("ok [%s,[h,[N,[],N,h,h,h,[],[]]],N]" % pyspec.show(I(n))) if inu64 else "err:Range"))
            out.append(case("dec", "Value", e, fam="value", expect="ok " + pyspec.show(I(n))))
        if in64:
            out.append(case("enc", "Label", enc(I(n)), fam="label-encode", expect="ok " + enc(I(n)).hex()))
    if tier == "quick":
        # keep the boundary lattice in full, sample the rest
        keep = [c for c in out if c["fam"] in ("label", "nonce", "key-data-length", "label-encode")]
        rest = [c for c in out if c["fam"] not in ("label", "nonce", "key-data-length", "label-encode")]
        out = keep + rng.sample(rest, min(len(rest), 6000))
    return out

# ================================================================= C14
def cases_C14(rng, tier):
    out = []
    n = Q(tier, 6, 40)
    for ty in TAGGED_TYPES:
        bodies = [enc(gen_msg(rng, ty, 1)) for _ in range(n)]
        bodies += [enc(('a', fault_msg_items(rng, gen_msg_items(rng, ty, 1)))) for _ in range(n // 2)]
        # shapes shared with other types
        for other in TAGGED_TYPES:
            if other != ty: bodies.append(enc(gen_msg(rng, other, 1)))
        for body in bodies:
            for t in sorted(set(TAGS + [MSG_TAG[ty] - 1, MSG_TAG[ty] + 1])):
                for w in (widths_for(t) if t in MSG_TAG.values() else [None]):
                    tagged = head(6, t, w) + body
                    out.append(case("dectag", ty, tagged, fam="tag-matrix", tag=t, body=body, mine=MSG_TAG[ty]))
                    out.append(case("dec", ty, tagged, fam="untagged-decoder-on-tagged", expect_re=r"err:\w+"))
            out.append(case("dec", ty, body, fam="untagged", body=body))
            out.append(case("dectag", ty, body, fam="untagged-to-tagged-decoder"))
            out.append(case("dectag", ty, head(6, MSG_TAG[ty]) + head(6, MSG_TAG[ty]) + body, fam="double-tag", expect_re=r"err:\w+"))
            out.append(case("dectag", ty, head(6, 55799) + head(6, MSG_TAG[ty]) + body, fam="double-tag", expect_re=r"err:\w+"))
        for _ in range(n):
            d = gen_desc_msg(rng, ty)
            want = pyspec.wire_value(ty, d)
            out.append(case("enctag", ty, enc(d), fam="tagged-encode",
                            expect="ok " + (head(6, MSG_TAG[ty]) + enc(want)).hex()))
            out.append(case("enc", ty, enc(d), fam="untagged-encode", expect="ok " + enc(want).hex()))
    return out

def post_C14(cases, impl):
    """tagged decode accepts iff right tag once over an accepted body, with the same value"""
    probs = []
    by_body = {}
    for c, o in zip(cases, impl):
        if c["fam"] == "untagged": by_body[(c["line"].split()[1], c["body"])] = o
    for c, o in zip(cases, impl):
        if c["fam"] != "tag-matrix": continue
        ty = c["line"].split()[1]
        base = by_body.get((ty, c["body"]))
        if base is None: continue
        if c["tag"] == c["mine"]:
            if norm(o) != norm(base):
                probs.append((c, o, "tagged decode differs from untagged decode of the body: %s" % base[:200]))
        elif not o.startswith("err:"):
            probs.append((c, o, "foreign tag %d accepted" % c["tag"]))
    return probs

# ================================================================= C13
def cases_C13(rng, tier):
    out = []
    for ty, b in corpus(rng, Q(tier, 250, 3000)):
        out.append(case("dec", ty, b, fam="base", key=(ty, b)))
        out.append(case("decval", ty, b, fam="api-decode", key=(ty, b), impl_only=True))
        sufs = [bytes([rng.choice([0x00, 0x20, 0x40, 0x60, 0x80, 0xa0, 0xc0, 0xf6, 0xff])]), enc(gen_scalar(rng)), rbytes(rng, 3) or b"\x00"]
        for s in sufs:
            out.append(case("dec", ty, b + s, fam="suffix", key=(ty, b), strict_err=True))
        cuts = range(len(b)) if len(b) <= Q(tier, 12, 40) else sorted(rng.sample(range(len(b)), Q(tier, 8, 24)))
        for k in cuts:
            out.append(case("dec", ty, b[:k], fam="prefix", key=(ty, b)))
        if ty in TAGGED_TYPES:
            tb = head(6, MSG_TAG[ty]) + b
            out.append(case("dectag", ty, tb, fam="base-tagged", key=(ty, tb)))
            out.append(case("dectag", ty, tb + sufs[0], fam="suffix-tagged", key=(ty, tb), strict_err=True))
            out.append(case("dectag", ty, tb[:rng.randrange(len(tb))], fam="prefix-tagged", key=(ty, tb)))
    # inside a protected bstr
    for _ in range(Q(tier, 60, 600)):
        h = enc(gen_header_map(rng, 1), rng)
        for inner, fam in ((h, "protected-base"), (h + b"\x00", "protected-suffix"), (h[:-1], "protected-prefix")):
            m = enc(A(B(inner), M(), NULL, B(b"")))
            out.append(case("dec", "CoseSign1", m, fam=fam, key=h, strict_err=True))
    for ty in DESC_GEN:
        for _ in range(Q(tier, 6, 60)):
            d = enc(DESC_GEN[ty](rng))
            out.append(case("enc", ty, d, fam="enc", key=(ty, d)))
            out.append(case("encval", ty, d, fam="api-encode", key=(ty, d), impl_only=True))
    return out

def post_C13(cases, impl):
    probs = []
    base = {}
    for c, o in zip(cases, impl):
        if c["fam"] in ("base", "base-tagged", "enc", "protected-base"): base[(c["fam"], c["key"])] = o
    for c, o in zip(cases, impl):
        f = c["fam"]
        if f == "api-decode" and norm(o) != norm(base[("base", c["key"])]):
            probs.append((c, o, "from_slice and from_cbor_value(read) disagree: %s" % base[("base", c["key"])][:200]))
        if f == "api-encode" and o != base[("enc", c["key"])]:
            probs.append((c, o, "to_vec and to_cbor_value().to_vec() disagree: %s" % base[("enc", c["key"])][:200]))
        if f in ("suffix", "prefix") and base[("base", c["key"])].startswith("ok"):
            if f == "suffix" and o != "err:Extra": probs.append((c, o, "suffix after an accepted input not rejected as extraneous data"))
            if f == "prefix" and not o.startswith("err:"): probs.append((c, o, "proper prefix of an accepted input accepted"))
        if f in ("suffix-tagged", "prefix-tagged") and base[("base-tagged", c["key"])].startswith("ok"):
            if f == "suffix-tagged" and o != "err:Extra": probs.append((c, o, "suffix after an accepted tagged input not rejected as extraneous data"))
            if f == "prefix-tagged" and not o.startswith("err:"): probs.append((c, o, "proper prefix of an accepted tagged input accepted"))
        if f in ("protected-suffix", "protected-prefix") and base[("protected-base", c["key"])].startswith("ok"):
            if f == "protected-suffix" and o != "err:Extra": probs.append((c, o, "trailing byte inside a protected bstr accepted / wrong error"))
            if f == "protected-prefix" and not o.startswith("err:"): probs.append((c, o, "truncated header inside a protected bstr accepted"))
    return probs


# ================================================================= C03 / C04 / C05
LEN_CLASSES_Q = [0, 1, 23, 24, 255, 256]
LEN_CLASSES_T = [0, 1, 23, 24, 255, 256, 65535, 65536]

def gen_prot_desc(rng):
    """(description, exact bytes it must contribute)"""
    r = rng.random()
    if r < 0.45:
        pb = gen_protected_bytes(rng, 1)
        # decoded from the wire: whatever the encoding, the stored bytes are used
        return d_protected(pb, D_EMPTY_HEADER), pb
    if r < 0.6:
        return d_protected(None, D_EMPTY_HEADER), b""
    h = gen_desc_header(rng, 1)
    d = d_protected(None, h)
    return d, pyspec.protected_bytes(d)

def blob(rng, lens):
    return rbytes(rng, rng.choice(lens))

def cases_C03(rng, tier):
    out = []
    lens = Q(tier, LEN_CLASSES_Q, LEN_CLASSES_T)
    seen = {}
    for _ in range(Q(tier, 500, 5000)):
        ctx = rng.choice(list(pyspec.SIG_CTX))
        body, bb = gen_prot_desc(rng)
        sign, sb = (gen_prot_desc(rng) if rng.random() < 0.5 else (NULL, None))
        aad, pl = blob(rng, lens), blob(rng, lens)
        want = pyspec.sig_structure(ctx, bb, sb, aad, pl)
        out.append(case("sigdata", ctx, enc(body), enc(sign), aad, pl, fam="sig_structure_data",
                        expect="ok " + want.hex(), tuple=(ctx, bb, sb, aad, pl)))
    for _ in range(Q(tier, 300, 3000)):
        # through the message helpers, message given in memory
        body, bb = gen_prot_desc(rng)
        aad = blob(rng, lens)
        embedded = rng.random() < 0.6
        pl = blob(rng, lens)
        sig = rbytes(rng)
        if rng.random() < 0.5:
            m = A(body, gen_desc_header(rng, 0), B(pl) if embedded else NULL, B(sig))
            if embedded:
                want = pyspec.sig_structure("CoseSign1", bb, None, aad, pl)
                out.append(case("helperdesc", "sign1.tbs_data", enc(m), aad, fam="sign1.tbs_data", expect="ok " + want.hex()))
                out.append(case("helperdesc", "sign1.verify_signature", enc(m), aad, fam="sign1.verify",
                                expect="ok %s %s" % (sig.hex(), want.hex())))
                out.append(case("helperdesc", "sign1.tbs_detached_data", enc(m), pl, aad, fam="sign1.detached-on-embedded",
                                expect="panic", may_panic=True))
            else:
                want = pyspec.sig_structure("CoseSign1", bb, None, aad, pl)
                out.append(case("helperdesc", "sign1.tbs_detached_data", enc(m), pl, aad, fam="sign1.tbs_detached", expect="ok " + want.hex()))
                out.append(case("helperdesc", "sign1.verify_detached_signature", enc(m), pl, aad, fam="sign1.verify_detached",
                                expect="ok %s %s" % (sig.hex(), want.hex())))
                want0 = pyspec.sig_structure("CoseSign1", bb, None, aad, b"")
                out.append(case("helperdesc", "sign1.tbs_data", enc(m), aad, fam="sign1.tbs_data-nopayload", expect="ok " + want0.hex()))
        else:
            nsig = rng.choice([1, 2, 3])
            sigs = []; sbytes = []
            for _i in range(nsig):
                sp, spb = gen_prot_desc(rng)
                sg = rbytes(rng)
                sigs.append(d_signature(sp, gen_desc_header(rng, 0), sg)); sbytes.append((spb, sg))
            m = A(body, gen_desc_header(rng, 0), B(pl) if embedded else NULL, ('a', sigs))
            w = rng.randrange(nsig)
            want = pyspec.sig_structure("CoseSignature", bb, sbytes[w][0], aad, pl)
            if embedded:
                out.append(case("helperdesc", "sign.tbs_data", enc(m), aad, bytes([w]), fam="sign.tbs_data", expect="ok " + want.hex()))
                out.append(case("helperdesc", "sign.verify_signature", enc(m), bytes([w]), aad, fam="sign.verify",
                                expect="ok %s %s" % (sbytes[w][1].hex(), want.hex())))
            else:
                out.append(case("helperdesc", "sign.tbs_detached_data", enc(m), pl, aad, bytes([w]), fam="sign.tbs_detached", expect="ok " + want.hex()))
                out.append(case("helperdesc", "sign.verify_detached_signature", enc(m), bytes([w]), pl, aad, fam="sign.verify_detached",
                                expect="ok %s %s" % (sbytes[w][1].hex(), want.hex())))
            out.append(case("helperdesc", "sign.verify_signature", enc(m), bytes([nsig]), aad, fam="sign.index-out-of-range",
                            expect="panic", may_panic=True))
    return out

def post_injective(cases, impl):
    probs = []; seen = {}
    for c, o in zip(cases, impl):
        if "tuple" in c and o.startswith("ok "):
            t = c["tuple"]
            if o in seen and seen[o] != t:
                probs.append((c, o, "two different inputs share these bytes: %r" % (seen[o],)))
            seen[o] = t
    return probs

def cases_C04(rng, tier):
    out = []
    lens = Q(tier, LEN_CLASSES_Q, LEN_CLASSES_T)
    for _ in range(Q(tier, 400, 4000)):
        ctx = rng.choice(list(pyspec.MAC_CTX))
        p, pb = gen_prot_desc(rng)
        aad, pl = blob(rng, lens), blob(rng, lens)
        want = pyspec.mac_structure(ctx, pb, aad, pl)
        out.append(case("macdata", ctx, enc(p), aad, pl, fam="mac_structure_data", expect="ok " + want.hex(), tuple=(ctx, pb, aad, pl)))
    for _ in range(Q(tier, 300, 3000)):
        p, pb = gen_prot_desc(rng)
        aad, pl, tag = blob(rng, lens), blob(rng, lens), rbytes(rng)
        has = rng.random() < 0.75
        if rng.random() < 0.5:
            m = A(p, gen_desc_header(rng, 0), B(pl) if has else NULL, B(tag))
            fn, ctx = "mac0.verify_tag", "CoseMac0"
        else:
            m = A(p, gen_desc_header(rng, 0), B(pl) if has else NULL, B(tag), ('a', [gen_desc_recipient(rng, 0) for _ in range(rng.choice([0, 1]))]))
            fn, ctx = "mac.verify_tag", "CoseMac"
        if has:
            want = pyspec.mac_structure(ctx, pb, aad, pl)
            out.append(case("helperdesc", fn, enc(m), aad, fam=fn, expect="ok %s %s" % (tag.hex(), want.hex())))
        else:
            out.append(case("helperdesc", fn, enc(m), aad, fam=fn + "-nopayload", expect="panic", may_panic=True))
    for _ in range(Q(tier, 150, 1500)):
        # creation through the builders: the closure echoes what it was given
        p_hdr = gen_desc_header(rng, 0)
        pb = b"" if pyspec.header_empty(p_hdr) else enc(pyspec.header_map(p_hdr))
        aad, pl, k = blob(rng, lens), blob(rng, lens), rbytes(rng, 2)
        bt, ctx = rng.choice([("CoseMac0", "CoseMac0"), ("CoseMac", "CoseMac")])
        has = rng.random() < 0.8
        ops = [A(T("protected"), p_hdr)] + ([A(T("payload"), B(pl))] if has else []) + \
              [A(T(rng.choice(["create_tag", "try_create_tag"])), B(aad), A(I(0), B(k)))]
        if has:
            want = k + pyspec.mac_structure(ctx, pb, aad, pl)
            out.append(case("build", bt, enc(('a', ops)), fam="create_tag", check=lambda c, o, w=want: None if ("h" + w.hex()) in o else "tag created from other bytes than the MAC_structure"))
        else:
            out.append(case("build", bt, enc(('a', ops)), fam="create_tag-nopayload", expect="panic", may_panic=True))
    return out

def cases_C05(rng, tier):
    out = []
    lens = Q(tier, LEN_CLASSES_Q, LEN_CLASSES_T)
    for _ in range(Q(tier, 400, 4000)):
        ctx = rng.choice(list(pyspec.ENC_CTX))
        p, pb = gen_prot_desc(rng)
        aad = blob(rng, lens)
        want = pyspec.enc_structure(ctx, pb, aad)
        out.append(case("encdata", ctx, enc(p), aad, fam="enc_structure_data", expect="ok " + want.hex(), tuple=(ctx, pb, aad)))
    for _ in range(Q(tier, 300, 3000)):
        p, pb = gen_prot_desc(rng)
        aad, ct = blob(rng, lens), rbytes(rng)
        has = rng.random() < 0.75
        which = rng.choice(["encrypt", "encrypt0", "recipient"])
        if which == "encrypt":
            m = A(p, gen_desc_header(rng, 0), B(ct) if has else NULL, ('a', []))
            args, ctx = (aad,), "CoseEncrypt"
        elif which == "encrypt0":
            m = A(p, gen_desc_header(rng, 0), B(ct) if has else NULL)
            args, ctx = (aad,), "CoseEncrypt0"
        else:
            m = A(p, gen_desc_header(rng, 0), B(ct) if has else NULL, ('a', []))
            ctx = rng.choice(list(pyspec.ENC_CTX))
            args = (tstr(ctx), aad)
        fn = which + ".decrypt"
        bad_ctx = which == "recipient" and ctx in ("CoseEncrypt", "CoseEncrypt0")
        if has and not bad_ctx:
            want = pyspec.enc_structure(ctx, pb, aad)
            out.append(case("helperdesc", fn, enc(m), *args, fam=fn, expect="ok %s %s" % (ct.hex(), want.hex())))
        else:
            out.append(case("helperdesc", fn, enc(m), *args, fam=fn + "-refused", expect="panic", may_panic=True))
    for _ in range(Q(tier, 150, 1500)):
        p_hdr = gen_desc_header(rng, 0)
        pb = b"" if pyspec.header_empty(p_hdr) else enc(pyspec.header_map(p_hdr))
        aad, pt, k = blob(rng, lens), rbytes(rng), rbytes(rng, 2)
        bt = rng.choice(["CoseEncrypt", "CoseEncrypt0", "CoseRecipient"])
        name = rng.choice(["create_ciphertext", "try_create_ciphertext"])
        if bt == "CoseRecipient":
            ctx = rng.choice(list(pyspec.ENC_CTX))
            ops = [A(T("protected"), p_hdr), A(T(name), T(ctx), B(pt), B(aad), A(I(0), B(k)))]
        else:
            ctx = bt
            ops = [A(T("protected"), p_hdr), A(T(name), B(pt), B(aad), A(I(0), B(k)))]
        if bt == "CoseRecipient" and ctx in ("CoseEncrypt", "CoseEncrypt0"):
            out.append(case("build", bt, enc(('a', ops)), fam="create_ciphertext-refused", expect="panic", may_panic=True))
        else:
            want = k + bytes([len(pt) % 256]) + pt + pyspec.enc_structure(ctx, pb, aad)
            out.append(case("build", bt, enc(('a', ops)), fam="create_ciphertext",
                            check=lambda c, o, w=want: None if ("h" + w.hex()) in o else "ciphertext created with other additional data than the Enc_structure"))
    return out

# ================================================================= registry
PROPS = {}
def reg(pid, gen, **kw):
    d = {"gen": gen}; d.update(kw); PROPS[pid] = d
reg("C03", cases_C03, post=post_injective)
reg("C04", cases_C04, post=post_injective)
reg("C05", cases_C05, post=post_injective)
reg("C13", cases_C13, post=post_C13)
reg("C14", cases_C14, post=post_C14)
reg("C15", cases_C15)
reg("C16", cases_C16)
reg("C17", cases_C17)
