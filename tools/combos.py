"""Deterministic COMBINATION families (2-way covering arrays over the features of each wire structure).
Random composition rarely pairs one particular value of one field with one particular value of another
field, carrier, position or encoding; the seeded changes that were missed at first were all of that
kind.  Every family here is decided twice: by an expectation computed in Python from the RFC rules
(accept iff every present field is in a valid class and no cross-field rule is broken) and by the
comparison with the extracted model."""
import random
from cbor import *
from gen import *
import pyspec
from pairwise import pairwise

ABSENT = "absent"
NONE = (ABSENT, None, True)

def with_tagged(classes):
    """every typed slot also gets its first valid value wrapped in a tag (epoch tag 1, encoded-CBOR tag 24, self-described
    tag 55799): a tagged item is not of the slot's type"""
    v = next((c[1] for c in classes if c[2] and c[1] is not None), None)
    if v is None or isinstance(v, (bytes, list)): return classes
    return classes + [("tag1", G(1, v), False), ("tag24", G(24, v), False), ("tag55799", G(55799, v), False)]

import tables
def retable(classes, reg, names, with_private=False, reserved=()):
    """validity of integer-valued classes follows the registries the crate has now"""
    out = []
    for name, v, ok in classes:
        if name not in names:
            pass
        elif isinstance(v, tuple) and v[0] == 'i':
            ok = tables.acceptable(reg, v[1], with_private) and v[1] not in reserved and -2**63 <= v[1] < 2**63
        elif isinstance(v, tuple) and v[0] == 'a' and v[1] and all(x[0] in ('i', 't') for x in v[1]) and name not in ("adjdup", "farDup", "textdup"):
            ok = all(x[0] == 't' or tables.acceptable(reg, x[1], with_private) for x in v[1])
        out.append((name, v, ok))
    return out

def class_rows(fields, others, rng):
    """fields: lists of (class name, value, valid?) (optional fields start with NONE); others: lists of plain values.
    Three arrays: all pairs of VALID classes (every row is acceptable: the accept side, field values and
    round trip are exercised for every pair), every invalid class alone among valid ones (the reject side
    is attributable), and all pairs of all classes (interactions of faults)."""
    nf = len(fields)
    valid = pairwise([[c for c in f if c[2]] for f in fields] + others, rng)
    rows = list(valid)
    for fi, f in enumerate(fields):
        for c in f:
            if c[2]: continue
            for base in rng.sample(valid, min(2, len(valid))):
                r = list(base); r[fi] = c; rows.append(tuple(r))
    rows += pairwise(list(fields) + others, rng)
    return rows

def dup_variants(entries, rng):
    """maps with one label repeated (same value): adjacent, and as far apart as possible, and with the twin in
    another integer width; every one of them is ill-formed whatever else the map holds"""
    out = []
    if not entries: return out
    for i in sorted(set([0, len(entries) - 1, rng.randrange(len(entries))])):
        k, v = entries[i]
        adj = list(entries); adj.insert(i + 1, (k, v)); out.append(adj)
        far = list(entries); far.insert(0 if i > 0 else len(entries), (k, v))
        if len(entries) >= 2: out.append(far)
        if k[0] == 'i' and -2**63 <= k[1] < 2**63:
            w = 8 if rng.random() < 0.5 else 2
            n = k[1] if k[1] >= 0 else -1 - k[1]
            if n < 256 ** w:
                twin = ('raw', head(0 if k[1] >= 0 else 1, n, w))
                other = list(entries); other.insert(rng.randrange(len(entries) + 1), (twin, v)); out.append(other)
    return out

# ------------------------------------------------------------------ header maps
# per label: list of (class name, value, valid?)
HDR_FIELD = {
    1: [("reg", I(-7), True), ("reg0", I(0), True), ("priv", I(-65537), True), ("text", T("HS"), True), ("edge", I(-65536), False),
        ("unreg", I(9), False), ("bytes", B(b"a"), False)],
    2: [("one", A(I(4)), True), ("three", A(I(4), I(1), T("z")), True), ("rep", A(I(1), I(1)), True), ("empty", A(), False),
        ("long", ('a', [I(1), I(2), I(3), I(4), I(5), I(6), I(7)] * 3 + [T("x%d" % i) for i in range(8)]), True),
        ("unreg", A(I(8)), False), ("neg", A(I(-1)), False), ("notarr", I(1), False)],
    3: [("int", I(50), True), ("int0", I(0), True), ("text", T("a/b"), True), ("noslash", T("ab"), False), ("ws", T(" a/b"), False),
        ("emptyside", T("a/"), True), ("empty", T(""), False), ("unreg", I(1), False), ("bytes", B(b"a/b"), False)],
    4: [("ok", B(b"k"), True), ("long", B(b"k" * 24), True), ("empty", B(b""), False), ("text", T("k"), False)],
    5: [("ok", B(b"\x01\x02"), True), ("empty", B(b""), False), ("int", I(1), False)],
    6: [("ok", B(b"\x03"), True), ("empty", B(b""), False), ("null", NULL, False)],
    7: [("single", A(B(b""), M(), B(b"s")), True), ("list1", A(A(B(b""), M(), B(b"s"))), True),
        ("list3", A(A(B(b""), M(), B(b"\x01")), A(B(b"\xa0"), M((I(4), B(b"q"))), B(b"\x02")), A(B(b""), M(), B(b"\x03"))), True),
        ("emptylist", A(), False), ("short", A(B(b""), M()), False), ("badinner", A(B(b""), M((I(4), B(b""))), B(b"")), False),
        ("mixed", A(A(B(b""), M(), B(b"s")), B(b"x")), False)],
}
EXTRA = [("int", (I(99), I(1)), True), ("text", (T("x"), NULL), True), ("huge", (I(2**63 - 1), I(2**64 - 1)), True),
         ("neg", (I(-65537), I(-2**64)), True), ("zero", (I(0), T("")), True), ("keybytes", (B(b"k"), I(1)), False),
         ("keyrange", (I(2**63), I(1)), False)]
ORDERS = ["asc", "desc", "shuffle"]
STYLES = ["canon", "noncanon"]

def _carriers(hb):
    raw = ("raw", hb)
    sig_p = A(B(hb), M(), B(b"")); sig_u = A(B(b""), raw, B(b""))
    return [("Header", hb, "map"), ("ProtectedHeader", hb, "map"),
            ("CoseSign1", enc(A(B(b""), raw, NULL, B(b""))), "u"), ("CoseSign1", enc(A(B(hb), M(), NULL, B(b""))), "p"),
            ("CoseMac0", enc(A(B(hb), M(), B(b"p"), B(b"t"))), "p"), ("CoseEncrypt0", enc(A(B(b""), raw, B(b"c"))), "u"),
            ("CoseSignature", enc(sig_u), "u"), ("CoseSignature", enc(sig_p), "p"),
            ("CoseSign", enc(A(B(b""), M(), NULL, A(A(B(b""), M(), B(b"")), sig_u))), "u"),
            ("CoseRecipient", enc(A(B(hb), M(), NULL)), "p"),
            ("CoseEncrypt", enc(A(B(b""), M(), NULL, A(A(B(b""), M(), NULL, A(A(B(b""), raw, NULL)))))), "u"),
            ("CoseMac", enc(A(B(b""), M(), NULL, B(b""), A(A(B(hb), M(), NULL)))), "p"),
            ("Header", enc(M((I(7), sig_u))), "u"), ("Header", enc(M((I(7), A(A(B(b""), M(), B(b"")), sig_p)))), "p"),
            ("SuppPubInfo", enc(A(I(128), B(hb))), "p"),
            ("CoseKdfContext", enc(A(I(1), A(NULL, NULL, NULL), A(NULL, NULL, NULL), A(I(8), B(hb), B(b"")))), "p")]
N_CARRIERS = 16

def header_combo_cases(case, seed=1):
    rng = random.Random("hdr-combo/%d" % seed)
    fields = [[NONE] + with_tagged(HDR_FIELD[l]) for l in range(1, 8)] + [[NONE] + EXTRA]
    out = []
    for row in class_rows(fields, [ORDERS, STYLES, list(range(N_CARRIERS))], rng):
        entries = []; valid = True
        for l, c in zip(range(1, 8), row[:7]):
            if c[0] == ABSENT: continue
            entries.append((I(l), c[1])); valid &= c[2]
        if row[7][0] != ABSENT:
            entries.append(row[7][1]); valid &= row[7][2]
        if row[4][0] != ABSENT and row[5][0] != ABSENT: valid = False     # IV and Partial IV together
        order, style, ci = row[8], row[9], row[10]
        if order == "desc": entries.reverse()
        elif order == "shuffle": rng.shuffle(entries)
        hb = enc(('m', entries), rng if style == "noncanon" else None, style="nobignum")
        ty, b, slot = _carriers(hb)[ci]
        out.append(case("dec", ty, b, fam="combo-header:" + ty, expect_re=(r"ok .*" if valid else r"err:\w+")))
        if valid:
            out.append(case("rt", ty, b, fam="combo-header-rt:" + ty, expect_re=r"ok [0-9a-f]+ T T"))
            for t in (55799, 1):
                out.append(case("dec", ty, head(6, t) + b, fam="combo-header-tagged:" + ty, expect_re=r"err:\w+"))
            if slot == "p":     # exactly one encoded map inside the protected bstr: nothing after it, nothing cut off
                for tail in (b"\x00", b"\xa0", b"\xff", b"\x18"):
                    ty3, b3, _ = _carriers(hb + tail)[ci]
                    out.append(case("dec", ty3, b3, fam="combo-header-protected-trailing:" + ty3, expect_re=r"err:\w+"))
                if len(hb) > 1:
                    ty3, b3, _ = _carriers(hb[:-1])[ci]
                    out.append(case("dec", ty3, b3, fam="combo-header-protected-truncated:" + ty3, expect_re=r"err:\w+"))
            for dv in dup_variants(entries, rng):
                ty2, b2, _ = _carriers(enc(('m', dv)))[ci]
                out.append(case("dec", ty2, b2, fam="combo-header-dup:" + ty2, expect_re=r"err:\w+"))
    return out

# ------------------------------------------------------------------ keys
KEY_FIELD = {
    1: [("okp", I(1), True), ("ec2", I(2), True), ("sym", I(4), True), ("text", T("k"), True), ("emptytext", T(""), True),
        ("reserved", I(0), False), ("unreg", I(7), False), ("neg", I(-1), False), ("bytes", B(b"\x01"), False)],
    2: [("ok", B(b"id"), True), ("empty", B(b""), False), ("text", T("id"), False)],
    3: [("reg", I(-7), True), ("priv", I(-65537), True), ("text", T(""), True), ("edge", I(-65536), False), ("unreg", I(9), False), ("arr", A(), False)],
    4: [("one", A(I(1)), True), ("two", A(I(2), I(1)), True), ("text", A(T("x"), I(10)), True), ("emptytext", A(T("")), True),
        ("all10text", ('a', [I(i) for i in range(1, 11)] + [T("attest")]), True), ("texts12", ('a', [T("op%d" % i) for i in range(12)]), True),
        ("all10dup", ('a', [I(i) for i in range(1, 11)] + [I(3)]), False),
        ("empty", A(), False), ("adjdup", A(I(3), I(3)), False), ("farDup", A(I(3), I(4), I(3)), False), ("textdup", A(T("x"), I(1), T("x")), False),
        ("unreg", A(I(11)), False), ("zero", A(I(0)), False), ("notarr", I(1), False)],
    5: [("ok", B(b"iv"), True), ("empty", B(b""), False), ("int", I(1), False)],
}
KEY_EXTRA = [("crv", (I(-1), I(1)), True), ("crvhuge", (I(-1), I(2**64 - 1)), True), ("crvneg", (I(-1), I(-2**64)), True),
             ("x", (I(-2), B(b"x")), True), ("text", (T("x"), A()), True), ("zero", (I(0), I(0)), True),
             ("six", (I(6), I(2**63)), True), ("keynull", (NULL, I(1)), False), ("keyrange", (I(-2**63 - 1), I(1)), False)]

def key_combo_cases(case, seed=1):
    rng = random.Random("key-combo/%d" % seed)
    fields = [with_tagged(KEY_FIELD[1]) + [(ABSENT, None, False)]] + [[NONE] + with_tagged(KEY_FIELD[l]) for l in range(2, 6)] + [[NONE] + KEY_EXTRA]
    out = []
    for row in class_rows(fields, [ORDERS, STYLES, ["CoseKey", "set1", "set2"]], rng):
        entries = []; valid = True
        for l, c in zip(range(1, 6), row[:5]):
            valid &= c[2]
            if c[0] == ABSENT: continue
            entries.append((I(l), c[1]))
        if row[5][0] != ABSENT:
            entries.append(row[5][1]); valid &= row[5][2]
        if row[6] == "desc": entries.reverse()
        elif row[6] == "shuffle": rng.shuffle(entries)
        kb = enc(('m', entries), rng if row[7] == "noncanon" else None, style="nobignum")
        good = enc(M((I(1), I(4))))
        ty, b = {"CoseKey": ("CoseKey", kb), "set1": ("CoseKeySet", b"\x81" + kb), "set2": ("CoseKeySet", b"\x82" + good + kb)}[row[8]]
        out.append(case("dec", ty, b, fam="combo-key:" + ty, expect_re=(r"ok .*" if valid else r"err:\w+")))
        if valid:
            out.append(case("rt", ty, b, fam="combo-key-rt:" + ty, expect_re=r"ok [0-9a-f]+ T T"))
            for t in (55799, 1):
                out.append(case("dec", ty, head(6, t) + b, fam="combo-key-tagged:" + ty, expect_re=r"err:\w+"))
            for dv in dup_variants(entries, rng):
                kb2 = enc(('m', dv))
                ty2, b2 = {"CoseKey": ("CoseKey", kb2), "set1": ("CoseKeySet", b"\x81" + kb2), "set2": ("CoseKeySet", b"\x82" + good + kb2)}[row[8]]
                out.append(case("dec", ty2, b2, fam="combo-key-dup:" + ty2, expect_re=r"err:\w+"))
    return out

# ------------------------------------------------------------------ claims sets
TS = [("int", I(5), True), ("neg", I(-5), True), ("min", I(-2**63), True), ("max", I(2**63 - 1), True), ("frac", ('f', 0x3ff8000000000000), True),
      ("whole", ('f', 0x4000000000000000), True), ("big", I(2**63), False), ("small", I(-2**63 - 1), False), ("text", T("5"), False), ("bytes", B(b""), False)]
TXT = [("ok", T("a"), True), ("empty", T(""), True), ("bytes", B(b"a"), False), ("int", I(1), False)]
CLAIM_FIELD = {1: TXT, 2: TXT, 3: TXT, 4: TS, 5: TS, 6: TS, 7: [("ok", B(b"id"), True), ("empty", B(b""), True), ("text", T("id"), False)]}
CLAIM_EXTRA = [("reg8", (I(8), M()), True), ("reg0", (I(0), I(2**64 - 1)), True), ("regneg", (I(-260), I(-2**64)), True), ("priv", (I(-65537), NULL), True),
               ("text", (T("x"), A()), True), ("emptytext", (T(""), I(1)), True), ("edge", (I(-65536), I(1)), False), ("unreg", (I(10), I(1)), False),
               ("keybytes", (B(b"\x01"), I(1)), False), ("keyrange", (I(2**63), I(1)), False)]

def claims_combo_cases(case, seed=1):
    rng = random.Random("claims-combo/%d" % seed)
    fields = [[NONE] + with_tagged(CLAIM_FIELD[l]) for l in range(1, 8)] + [[NONE] + CLAIM_EXTRA]
    out = []
    for row in class_rows(fields, [ORDERS, STYLES], rng):
        entries = []; valid = True
        for l, c in zip(range(1, 8), row[:7]):
            if c[0] == ABSENT: continue
            entries.append((I(l), c[1])); valid &= c[2]
        if row[7][0] != ABSENT:
            entries.append(row[7][1]); valid &= row[7][2]
        if row[8] == "desc": entries.reverse()
        elif row[8] == "shuffle": rng.shuffle(entries)
        b = enc(('m', entries), rng if row[9] == "noncanon" else None, style="nobignum")
        out.append(case("dec", "ClaimsSet", b, fam="combo-claims", expect_re=(r"ok .*" if valid else r"err:\w+")))
        if valid:
            out.append(case("rt", "ClaimsSet", b, fam="combo-claims-rt", expect_re=r"ok [0-9a-f]+ T T"))
            for t in (55799, 1):
                out.append(case("dec", "ClaimsSet", head(6, t) + b, fam="combo-claims-tagged", expect_re=r"err:\w+"))
            for dv in dup_variants(entries, rng):
                out.append(case("dec", "ClaimsSet", enc(('m', dv)), fam="combo-claims-dup", expect_re=r"err:\w+"))
    return out

# ------------------------------------------------------------------ KDF context
def kdf_combo_cases(case, seed=1):
    rng = random.Random("kdf-combo/%d" % seed)
    ident = [("nil", NULL, True), ("bytes", B(b"id"), True), ("empty", B(b""), True), ("text", T("id"), False)]
    nonce = [("nil", NULL, True), ("bytes", B(b"n"), True), ("int", I(7), True), ("neg", I(-2**63), True), ("big", I(2**63), False), ("text", T("n"), False)]
    alg = [("reg", I(1), True), ("priv", I(-65537), True), ("text", T("a"), True), ("edge", I(-65536), False), ("unreg", I(9), False)]
    kdl = [("zero", I(0), True), ("n", I(128), True), ("max", I(2**64 - 1), True), ("neg", I(-1), False), ("big", ('raw', b"\xc2\x49\x01" + b"\x00" * 8), False), ("text", T("1"), False)]
    prot = [("empty", b"", True), ("a0", b"\xa0", True), ("indef", b"\xbf\xff", True), ("alg", b"\xa1\x01\x26", True), ("noncanon", b"\xbf\x18\x01\x38\x06\xff", True),
            ("dup", b"\xa2\x04\x41\x01\x04\x41\x01", False), ("trailing", b"\xa0\x00", False), ("notmap", b"\x80", False)]
    other = [NONE, ("bytes", B(b"o"), True), ("empty", B(b""), True), ("text", T("o"), False)]
    priv = [("none", [], True), ("one", [B(b"p")], True), ("two", [B(b""), B(b"q")], True), ("bad", [T("p")], False)]
    out = []
    for row in class_rows([with_tagged(alg), with_tagged(ident[1:]) + ident[:1], with_tagged(nonce[1:]) + nonce[:1], ident, nonce, with_tagged(kdl), prot, other, priv], [STYLES], rng):
        a, ui, un, vi, vn, k, p, o, pv, style = row
        valid = all(x[2] for x in (a, ui, un, vi, vn, k, p, o, pv))
        supp = [k[1], B(p[1])] + ([o[1]] if o[0] != ABSENT else [])
        v = ('a', [a[1], A(ui[1], un[1], NULL), A(vi[1], vn[1], B(b"x")), ('a', supp)] + pv[1])
        b = enc(v, rng if style == "noncanon" else None, style="nobignum")
        out.append(case("dec", "CoseKdfContext", b, fam="combo-kdf", expect_re=(r"ok .*" if valid else r"err:\w+")))
        if valid:
            out.append(case("rt", "CoseKdfContext", b, fam="combo-kdf-rt", expect_re=r"ok [0-9a-f]+ T T"))
        sb = enc(('a', supp), rng if style == "noncanon" else None, style="nobignum")
        sv = k[2] and p[2] and o[2]
        out.append(case("dec", "SuppPubInfo", sb, fam="combo-supp", expect_re=(r"ok .*" if sv else r"err:\w+")))
        if sv:
            out.append(case("rt", "SuppPubInfo", sb, fam="combo-supp-rt", expect_re=r"ok [0-9a-f]+ T T"))
        for pi, pn in ((ui, un), (vi, vn)):
            pb = enc(A(pi[1], pn[1], NULL))
            out.append(case("dec", "PartyInfo", pb, fam="combo-party", expect_re=(r"ok .*" if pi[2] and pn[2] else r"err:\w+")))
    return out

# ------------------------------------------------------------------ message structures: slot classes
def msg_combo_cases(case, seed=1):
    """every message structure: class of each slot x arity x nested list sizes, pairwise"""
    rng = random.Random("msg-combo/%d" % seed)
    P = [("empty", B(b""), True), ("a0", B(b"\xa0"), True), ("alg", B(b"\xa1\x01\x26"), True), ("direct", B(b"\xa1\x01\x25"), True), ("indef", B(b"\xbf\x04\x41\x01\xff"), True),
         ("both-iv", B(b"\xa2\x05\x41\x01\x06\x41\x02"), False), ("dup", B(b"\xa2\x04\x41\x01\x04\x41\x02"), False), ("trailing", B(b"\xa0\xa0"), False),
         ("truncated", B(b"\xa1\x01"), False), ("selfdesc", B(b"\xd9\xd9\xf7\xa0"), False), ("tag1map", B(b"\xc1\xa1\x01\x26"), False),
         ("bstr-in-bstr", B(b"\x41\xa0"), False), ("notmap", B(b"\x01"), False), ("map", M(), False), ("text", T(""), False), ("nil", NULL, False)]
    U = [("empty", M(), True), ("kid", M((I(4), B(b"k"))), True), ("direct", M((I(1), I(-6))), True), ("kw", M((I(1), I(-3)), (I(5), B(b"iv"))), True),
         ("ecdh", M((I(1), I(-25)), (I(-1), M((I(1), I(2))))), True), ("extra", M((T("x"), I(1)), (I(33), A())), True), ("both-iv", M((I(6), B(b"\x01")), (I(5), B(b"\x02"))), False),
         ("dup", M((I(4), B(b"a")), (I(4), B(b"a"))), False), ("badalg", M((I(1), I(-65536))), False), ("bstr", B(b"\xa0"), False), ("arr", A(), False)]
    PL = [("bytes", B(b"pl"), True), ("empty", B(b""), True), ("nil", NULL, True), ("text", T("pl"), False), ("int", I(0), False)]
    BY = [("bytes", B(b"sg"), True), ("empty", B(b""), True), ("nil", NULL, False), ("text", T(""), False)]
    def sig(n): return A(B(b""), M(), B(bytes([n])))
    def rec(n, nested=None): return ('a', [B(b""), M(), B(bytes([n]))] + ([nested] if nested is not None else []))
    SIGS = [("none", A(), True), ("one", A(sig(1)), True), ("three", A(sig(1), sig(2), sig(3)), True), ("bad", A(sig(1), A(B(b""), M())), False), ("notarr", M(), False),
            ("bare", sig(1), False), ("bare-hdr", A(B(b"\xa1\x01\x26"), M((I(4), B(b"k"))), B(b"s")), False), ("nested-list", A(A(sig(1))), False)]
    RECS = [("none", A(), True), ("one", A(rec(1)), True), ("three", A(rec(1), rec(2), rec(3)), True), ("nested", A(rec(1, A(rec(2), rec(3, A(rec(4)))))), True),
            ("nested-empty", A(rec(1, A())), True), ("bad", A(rec(1), ('a', [B(b""), M()])), False), ("bare", rec(1), False), ("bare4", rec(1, A(rec(2))), False),
            ("nested-list", A(A(rec(1))), False), ("five", A(('a', [B(b""), M(), NULL, A(), NULL])), False), ("notarr", NULL, False)]
    EXTRA = [("exact", 0), ("plus1", 1), ("minus1", -1)]
    shapes = {"CoseSign1": [P, U, PL, BY], "CoseMac0": [P, U, PL, BY], "CoseEncrypt0": [P, U, PL], "CoseSignature": [P, U, BY],
              "CoseSign": [P, U, PL, SIGS], "CoseMac": [P, U, PL, BY, RECS], "CoseEncrypt": [P, U, PL, RECS], "CoseRecipient": [P, U, PL, RECS]}
    out = []
    AR = [("exact", 0, True), ("plus1", 1, False), ("minus1", -1, False)]
    for ty, slots in shapes.items():
        for row in class_rows([with_tagged(sl) for sl in slots] + [AR], [STYLES], rng):
            cls = row[:len(slots)]; ar = row[len(slots)]; style = row[-1]
            items = [c[1] for c in cls]; valid = all(c[2] for c in cls)
            if ar[1] == 1: items.append(NULL); valid = False
            elif ar[1] == -1:
                items.pop()
                valid = ty == "CoseRecipient" and all(c[2] for c in cls[:3])   # the 4th recipient slot is optional
            b = enc(('a', items), rng if style == "noncanon" else None, style="nobignum")
            out.append(case("dec", ty, b, fam="combo-msg:" + ty, expect_re=(r"ok .*" if valid else r"err:\w+")))
            if valid:
                for t in (55799, 1, 24, 61, 2**64 - 1):     # the untagged decoders take the bare array only
                    out.append(case("dec", ty, head(6, t) + b, fam="combo-msg-tagged:" + ty, expect_re=r"err:\w+"))
                # the same bytes through every other structure decoder (several types share a shape): decided by the model
                for other in shapes:
                    if other != ty and len(shapes[other]) == len(slots):
                        out.append(case("dec", other, b, fam="combo-msg-as:" + other))
                out.append(case("rt", ty, b, fam="combo-msg-rt:" + ty, expect_re=r"ok [0-9a-f]+ T T"))
                if ty in MSG_TAG:
                    out.append(case("rttag", ty, head(6, MSG_TAG[ty]) + b, fam="combo-msg-rttag:" + ty, expect_re=r"ok [0-9a-f]+ T T"))
    return out

# ------------------------------------------------------------------ built values: encode + decode back
def desc_header_rows(rng):
    algs = [NULL, d_reg(1, -7), d_reg(0, -65537), d_reg(2, "a")]
    crits = [[], [d_reg(1, 4)], [d_reg(1, 4), d_reg(1, 1), d_reg(2, "z")]]
    cts = [NULL, d_reg(1, 50), d_reg(2, "a/b")]
    bs = [b"", b"k"]
    ivs = [(b"", b""), (b"iv", b""), (b"", b"p")]
    cs = [[], [d_signature(d_protected(None, D_EMPTY_HEADER), D_EMPTY_HEADER, b"\x01")],
          [d_signature(d_protected(None, D_EMPTY_HEADER), d_header(kid=bytes([i])), bytes([i])) for i in (3, 1, 2)]]
    rests = [[], [(I(99), I(1))], [(I(300), I(1)), (I(-1), I(2)), (T("b"), I(3)), (I(9), I(4))], [(T(""), NULL)]]
    rows = pairwise([algs, crits, cts, bs, ivs, cs, rests], rng)
    return [d_header(alg=a if a != NULL else None, crit=c, ctype=t if t != NULL else None, kid=k, iv=iv[0], piv=iv[1], csigs=s, rest=r)
            for a, c, t, k, iv, s, r in rows]

def built_combo_cases(case, seed=1):
    """every message type x (protected built header, unprotected header) pairwise over header field populations;
    expectation: the independent Python encoder of the CDDL shapes, and the decode-back equals the value with
    protected bytes assigned"""
    rng = random.Random("built-combo/%d" % seed)
    hs = desc_header_rows(rng)
    out = []
    for ty in MSG_TYPES:
        for i, h in enumerate(hs):
            d = gen_desc_msg(rng, ty)
            x = list(d[1])
            x[0] = d_protected(None, h) if i % 2 == 0 else d_protected(None, D_EMPTY_HEADER)
            x[1] = hs[(i * 7 + 3) % len(hs)] if i % 2 == 1 else x[1]
            d2 = ('a', x)
            try:
                want = enc(pyspec.wire_value(ty, d2))
            except Exception:
                continue
            out.append(case("encdec", ty, enc(d2), fam="combo-built:" + ty, expect="ok %s ok %s" % (want.hex(), pyspec.show(pyspec.assign(ty, d2)))))
    for h in hs:
        out.append(case("encdec", "Header", enc(h), fam="combo-built:Header",
                        expect="ok %s ok %s" % (enc(pyspec.header_map(h)).hex(), pyspec.show(pyspec.assign("Header", h)))))
    return out

# ------------------------------------------------------------------ builder call pairs
def builder_pair_cases(case, builder_ops, BUILDERS, seed=1):
    """every ordered pair of (op instance, op instance) of every builder, each op in two argument variants
    (one of them with an empty argument where the op takes bytes)"""
    rng = random.Random("builder-pairs/%d" % seed)
    out = []
    for bt in BUILDERS:
        inst = {}
        for op in builder_ops(rng, bt, 600):
            name = op[1][0][1]
            lst = inst.setdefault(name, [])
            if len(lst) < 2 and enc(op) not in [enc(x) for x in lst]:
                lst.append(op)
        for name, lst in inst.items():
            op = lst[0]
            if len(op[1]) >= 2 and op[1][1][0] == 'b' and op[1][1][1] != b"":
                e = ('a', [op[1][0], B(b"")] + list(op[1][2:]))
                if len(lst) < 2: lst.append(e)
                else: lst[1] = e
        allops = [o for lst in inst.values() for o in lst]
        for a in allops:
            for b in allops:
                out.append(case("build", bt, enc(('a', [a, b])), fam="op-pairs:" + bt, may_panic=True))
        # and every op after a fixed non-trivial prefix
        prefix = builder_ops(rng, bt, 3)
        for a in allops:
            out.append(case("build", bt, enc(('a', prefix + [a])), fam="op-after-prefix:" + bt, may_panic=True))
    return out

# ------------------------------------------------------------------ one label twice, every pair of value classes
def dup_class_pair_cases(case):
    """{L: v1, (mandatory fields), L: v2} for every typed label L of headers, keys and claims sets and every pair of
    value classes (valid or not, "default-looking" ones included): never accepted, whichever value comes first"""
    out = []
    for name, table, ty, base in (("header", HDR_FIELD, "Header", []), ("key", KEY_FIELD, "CoseKey", [(I(1), I(4))]),
                                  ("claims", CLAIM_FIELD, "ClaimsSet", [])):
        for l, classes in table.items():
            vals = [c[1] for c in classes]
            for v1 in vals:
                for v2 in vals:
                    b0 = [e for e in base if e[0] != I(l)]
                    for entries in ([(I(l), v1)] + b0 + [(I(l), v2)], [(I(l), v1), (I(l), v2)] + b0):
                        out.append(case("dec", ty, enc(('m', entries)), fam="dup-class-pairs:" + name, expect_re=r"err:\w+"))
    return out

# ------------------------------------------------------------------ wide inputs (time proportional to the input)
def wide_inputs():
    """(type, bytes): one repeated position each with ~10^5 elements; all well-formed (so the whole input is processed)"""
    n = 150000
    def arr(k): return head(4, k)
    def mp(k): return head(5, k)
    out = []
    out.append(("CoseKdfContext", arr(4 + n) + b"\x01\x83\xf6\xf6\xf6\x83\xf6\xf6\xf6\x82\x18\x80\x40" + b"\x40" * n))
    m = 40000
    sig = b"\x83\x40\xa0\x40"; rec = b"\x83\x40\xa0\xf6"
    out.append(("CoseSign", b"\x84\x40\xa0\xf6" + arr(m) + sig * m))
    out.append(("CoseEncrypt", b"\x84\x40\xa0\xf6" + arr(m) + rec * m))
    out.append(("CoseMac", b"\x85\x40\xa0\xf6\x40" + arr(m) + rec * m))
    out.append(("CoseRecipient", b"\x84\x40\xa0\xf6" + arr(m) + rec * m))
    out.append(("Header", mp(1) + b"\x07" + arr(m) + sig * m))
    out.append(("Header", mp(1) + b"\x02" + arr(n) + b"\x01" * n))
    k = 100000       # pairwise-distinct labels: a duplicate check that is quadratic in the entries costs seconds here
    i4 = lambda mt, i: bytes([mt * 32 + 26]) + (100000 + i).to_bytes(4, "big")
    out.append(("Header", mp(k) + b"".join(i4(0, i) + b"\x00" for i in range(k))))
    out.append(("Header", mp(k) + b"".join(b"\x66" + ("%06x" % i).encode() + b"\x00" for i in range(k))))
    out.append(("CoseSign1", b"\x84" + (lambda h: head(2, len(h)) + h)(mp(k) + b"".join(i4(0, i) + b"\x00" for i in range(k))) + b"\xa0\xf6\x40"))
    out.append(("CoseKey", mp(k + 1) + b"\x01\x04" + b"".join(i4(1, i) + b"\x00" for i in range(k))))
    out.append(("CoseKey", mp(k + 1) + b"\x01\x04" + b"".join(b"\x66" + ("%06x" % i).encode() + b"\x00" for i in range(k))))
    out.append(("ClaimsSet", mp(k) + b"".join(b"\x66" + ("%06x" % i).encode() + b"\x00" for i in range(k))))
    out.append(("ClaimsSet", mp(k) + b"".join(i4(1, i) + b"\x00" for i in range(k))))
    out.append(("CoseKeySet", arr(m) + b"\xa1\x01\x04" * m))
    out.append(("CoseKey", mp(2) + b"\x01\x04\x04" + arr(k) + b"".join(b"\x66" + ("%06x" % i).encode() for i in range(k))))
    out.append(("Header", mp(2) + b"\x02" + arr(k) + b"".join(b"\x66" + ("%06x" % i).encode() for i in range(k)) + b"\x18\x64\x00"))
    # deep AND branching: recipients nested 60 deep with 1..5 entries per level, the deep entry first or last
    small = b"\x83\x40\xa0\xf6"
    for fan in (1, 2, 3, 4, 5):
        for last in (True, False):
            r = small
            for _ in range(60):
                sib = small * (fan - 1)
                r = b"\x84\x40\xa0\xf6" + arr(fan) + ((sib + r) if last else (r + sib))
            out.append(("CoseRecipient", r))
            out.append(("CoseEncrypt", b"\x84\x40\xa0\xf6" + arr(1) + r))
            out.append(("CoseMac", b"\x85\x40\xa0\xf6\x40" + arr(1) + r))
    # counter-signature chains 16 deep in list form with 1..4 entries per level
    for fan in (1, 2, 3, 4):
        inner = b"\xa0"
        sg = b"\x83\x40\xa0\x40"
        for _ in range(15):
            sig = b"\x83" + head(2, len(inner)) + inner + b"\xa0\x40"
            inner = b"\xa1\x07" + arr(fan) + sg * (fan - 1) + sig
        out.append(("Header", inner))
    return out

# ------------------------------------------------------------------ follow the current registries
HDR_FIELD[1] = retable(HDR_FIELD[1], "Algorithm", ("reg", "reg0", "priv", "edge", "unreg"), True)
HDR_FIELD[2] = retable(HDR_FIELD[2], "HeaderParameter", ("one", "three", "rep", "unreg", "neg", "long"))
HDR_FIELD[3] = retable(HDR_FIELD[3], "CoapContentFormat", ("int", "int0", "unreg"))
KEY_FIELD[1] = retable(KEY_FIELD[1], "KeyType", ("okp", "ec2", "sym", "reserved", "unreg", "neg"), reserved=(0,))
KEY_FIELD[3] = retable(KEY_FIELD[3], "Algorithm", ("reg", "priv", "edge", "unreg"), True)
KEY_FIELD[4] = retable(KEY_FIELD[4], "KeyOperation", ("one", "two", "text", "unreg", "zero", "all10text"))
CLAIM_EXTRA = [(n, kv, (tables.acceptable("CwtClaimName", kv[0][1], True) and -2**63 <= kv[0][1] < 2**63) if kv[0][0] == 'i' else ok) for n, kv, ok in CLAIM_EXTRA]
