"""Seeded, structured case generators (DESIGN.md section 6).

Every generator takes a random.Random and the tier and returns a list of cases
    {'line': '<op> <type> <tok>...', 'fam': '<family>', ...oracle hints...}
All random choices derive from the one PRNG handed in, so a (seed, tier) pair replays exactly.
"""
import itertools
from cbor import *

# ---------------------------------------------------------------- palettes
INT_EDGES = [0, 1, 23, 24, 255, 256, 65535, 65536, 2**32 - 1, 2**32, 2**63 - 1, 2**63, 2**64 - 1]
NEG_EDGES = [-1, -24, -25, -256, -257, -65536, -65537, -2**32 - 1, -2**63, -2**63 - 1, -2**64]
def int_lattice():
    s = set()
    for e in INT_EDGES + NEG_EDGES:
        for d in (-1, 0, 1):
            if -2**64 <= e + d < 2**64:
                s.add(e + d)
    return sorted(s)
LATTICE = int_lattice()

ALG_REG = [-7, -8, 1, 3, 5, -65535, -35, 0, 34, -260]
ALG_PRIV = [-65537, -70000, -2**63]
ALG_BAD = [8, 9, 100, -65536, -1, -2, -9, 35, 2**63 - 1]
HP_REG = [1, 2, 3, 4, 5, 6, 7, 9, 10, 32, 33, 34, 35, 256, 257, 0]
HP_BAD = [8, 11, 31, 36, 255, 258, -1, -65537, 2**40]
CF_REG = [0, 16, 40, 41, 42, 47, 50, 60, 61, 96, 101, 110, 256, 271, 432, 10000, 11542, 11544]
CF_BAD = [1, 2, 15, 19, 39, 43, 9999, 11545, -1, 65536]
CT_TEXT_OK = ['a/b', 'text/plain', 'application/cose; cose-type="cose-sign1"', 'x/y z', '\u00e9/\u4e2d', 'a/\u200b',
              '/x', 'x/', '/', 'a/b\u180e', '\ufeffa/b']
CT_TEXT_BAD = ['', ' a/b', 'a/b ', '\ta/b', 'a/b\n', 'ab', 'a/b/c', '\u00a0a/b', 'a/b\u2003', 'a/b\u3000',
               '\u1680a/b', 'a/b\u0085', 'a/b\u2028', 'a/b\u202f', 'a/b\u205f', '//', '\x0ba/b', 'a/b\x0c', 'a/b\r',
               '\u2000a/b', 'a/b\u200a', '\u2029a/b']
KTY_REG = [1, 2, 3, 4, 5, 6]
KTY_BAD = [0, 7, 8, -1, 100, 2**63 - 1]
KOP_REG = list(range(1, 11))
KOP_BAD = [0, 11, -1, 255]
CLAIM_REG = [-260, -259, -258, -257, 0, 8, 9, 38, 39, 40]
CLAIM_PRIV = [-65537, -100000]
CLAIM_BAD = [10, 11, 37, 41, -1, -256, -261, -65536, 65536]
# the palettes follow the registries the crate has NOW (regenerated tables): see tools/tables.py
import tables as _tb
def _resplit(reg, lists, with_private=False):
    allv = [v for l in lists for v in l]
    good = [v for v in allv if _tb.registered(reg, v)]
    priv = [v for v in allv if not _tb.registered(reg, v) and with_private and _tb.private(reg, v)]
    bad = [v for v in allv if not _tb.registered(reg, v) and not (with_private and _tb.private(reg, v))]
    return good, priv, bad
ALG_REG, ALG_PRIV, ALG_BAD = _resplit("Algorithm", [ALG_REG, ALG_PRIV, ALG_BAD], True)
HP_REG, _x, HP_BAD = _resplit("HeaderParameter", [HP_REG, HP_BAD])
CF_REG, _x, CF_BAD = _resplit("CoapContentFormat", [CF_REG, CF_BAD])
KTY_REG, _x, KTY_BAD = _resplit("KeyType", [KTY_REG, [v for v in KTY_BAD if v != 0]]); KTY_BAD = [0] + KTY_BAD; KTY_REG = [v for v in KTY_REG if v != 0]
KOP_REG, _x, KOP_BAD = _resplit("KeyOperation", [KOP_REG, KOP_BAD])
CLAIM_REG, CLAIM_PRIV, CLAIM_BAD = _resplit("CwtClaimName", [CLAIM_REG, CLAIM_PRIV, CLAIM_BAD], True)
TEXT_LABELS = ['', 'a', 'alg', 'kid', 'b', 'aa', 'é', 'x' * 23, 'x' * 24, 'y' * 255, 'z' * 256,
               '1', '2', '4', '7', '12', '-1', '007', '+5', '1000', '-65537']      # text that LOOKS like an integer label is still text
OTHER_HDR_LABELS = [0, 8, 9, 10, 32, 33, 34, 35, 256, 257, -1, -2, -3, -6, -65536, -65537, 2**63 - 1, -2**63,
                    23, 24, 255, 65535, 65536, 2**32]
TAGS = [0, 2, 3, 16, 17, 18, 61, 96, 97, 98, 55799, 2**64 - 1, 15, 19, 95, 99]
MSG_TAG = {'CoseSign': 98, 'CoseSign1': 18, 'CoseEncrypt': 96, 'CoseEncrypt0': 16, 'CoseMac': 97, 'CoseMac0': 17}
BSTR_LENS = [0, 1, 2, 23, 24, 255, 256]
FLOATS = [0x0000000000000000, 0x8000000000000000, 0x3ff0000000000000, 0x3ff8000000000000, 0x7ff0000000000000,
          0xfff0000000000000, 0x3fb999999999999a, 0x47efffffe0000000, 0x3e70000000000000, 0x0000000000000001,
          0x36a0000000000000, 0x40f86a0000000000, 0xc0f86a0000000000, 0x41d7ffffffc00000, 0x7fefffffffffffff,
          0x3f10000000000000, 0x3a00000000000000,
          0x7ff8000000000000, 0xfff8000000000000, 0x7ff8000020000000, 0x7ff8000000000001, 0x7ff0000000000001]

# NaNs as they can appear on the wire (quiet / signalling, every width)
NAN_WIRE = [bytes.fromhex(h) for h in ('f97e00', 'f97c01', 'f9fe00', 'fa7fc00000', 'fa7f800001', 'fb7ff8000000000000', 'fb7ff0000000000001', 'fbfff8000000000001')]

RAW_NAN = [True]    # descriptions of in-memory values never carry wire-level NaN spellings

ALL_TYPES = ['Value', 'Label', 'Header', 'ProtectedHeader', 'CoseSignature', 'CoseSign', 'CoseSign1', 'CoseMac',
             'CoseMac0', 'CoseRecipient', 'CoseEncrypt', 'CoseEncrypt0', 'CoseKey', 'CoseKeySet', 'ClaimsSet',
             'PartyInfo', 'SuppPubInfo', 'CoseKdfContext', 'Reg:KeyType', 'Reg:HeaderParameter',
             'Reg:CoapContentFormat', 'Reg:KeyOperation', 'RegP:Algorithm', 'RegP:CwtClaimName',
             'RegP:HeaderParameter', 'RegP:EllipticCurve']
MSG_TYPES = ['CoseSign1', 'CoseSign', 'CoseSignature', 'CoseMac', 'CoseMac0', 'CoseEncrypt', 'CoseEncrypt0', 'CoseRecipient']
TAGGED_TYPES = ['CoseSign', 'CoseSign1', 'CoseEncrypt', 'CoseEncrypt0', 'CoseMac', 'CoseMac0']
ARITY = {'CoseSign1': 4, 'CoseSign': 4, 'CoseSignature': 3, 'CoseMac': 5, 'CoseMac0': 4, 'CoseEncrypt': 4,
         'CoseEncrypt0': 3, 'CoseRecipient': 3}

def hx(b):
    return b.hex() if b else '-'
def case(op, ty, *toks, **meta):
    d = {'line': ' '.join([op, ty] + [t if isinstance(t, str) else hx(t) for t in toks])}
    d.update(meta)
    return d

# ---------------------------------------------------------------- values
def rbytes(rng, n=None):
    if n is None:
        n = rng.choice([0, 1, 1, 2, 3, 4, 8, 16, 23, 24, 32])
    return bytes(rng.randrange(256) for _ in range(n))

def gen_scalar(rng):
    r = rng.random()
    if r < 0.3: return I(rng.choice(LATTICE))
    if r < 0.4: return I(rng.randrange(-1000, 1000))
    if r < 0.55: return B(rbytes(rng))
    if r < 0.7: return T(rng.choice(TEXT_LABELS + CT_TEXT_OK))
    if r < 0.76: return ('f', rng.choice(FLOATS))
    if r < 0.78: return ('raw', rng.choice(NAN_WIRE)) if RAW_NAN[0] else ('f', 0x7ff8000000000000)
    if r < 0.86: return rng.choice([TRUE, FALSE, NULL])
    if r < 0.93: return I(rng.randrange(-2**64, 2**64))
    return B(rbytes(rng, rng.choice(BSTR_LENS)))

def gen_value(rng, depth=3):
    if depth <= 0 or rng.random() < 0.45:
        return gen_scalar(rng)
    r = rng.random()
    if r < 0.4:
        return ('a', [gen_value(rng, depth - 1) for _ in range(rng.choice([0, 1, 2, 3, 4]))])
    if r < 0.8:
        return ('m', [(gen_value(rng, depth - 1), gen_value(rng, depth - 1)) for _ in range(rng.choice([0, 1, 2, 3]))])
    t = rng.choice(TAGS)
    v = gen_value(rng, depth - 1)
    if t in (2, 3) and v[0] == 'b' and len(v[1]) <= 16:
        v = B(v[1] + b'\x01' * 17)   # keep clear of the bignum normal form (its own family covers it)
    return ('g', t, v)

WRONG_KINDS = [I(0), I(-1), B(b''), B(b'\x01'), T(''), T('x'), ('f', 0x3ff8000000000000), TRUE, FALSE, NULL,
               A(), A(I(1)), M(), M((I(1), I(1))), G(1, I(0)), I(2**63), I(-2**63 - 1), I(2**64 - 1)]

# ---------------------------------------------------------------- headers
def gen_label(rng):
    r = rng.random()
    if r < 0.55: return I(rng.choice(OTHER_HDR_LABELS))
    if r < 0.85: return T(rng.choice(TEXT_LABELS))
    return I(rng.randrange(-2**63, 2**63))

def gen_alg(rng):
    r = rng.random()
    if r < 0.6: return I(rng.choice(ALG_REG))
    if r < 0.8: return I(rng.choice(ALG_PRIV))
    return T(rng.choice(['HS256', '', 'alg']))

def gen_signature_item(rng, depth, prot=None):
    p = prot if prot is not None else gen_protected_bytes(rng, depth)
    return A(B(p), gen_header_map(rng, depth, faults=0), B(rbytes(rng)))

def gen_std_value(rng, label, depth):
    if label == 1: return gen_alg(rng)
    if label == 2:
        return ('a', [I(rng.choice(HP_REG)) if rng.random() < 0.8 else T(rng.choice(TEXT_LABELS))
                      for _ in range(rng.choice([1, 1, 2, 3]))])
    if label == 3:
        return I(rng.choice(CF_REG)) if rng.random() < 0.5 else T(rng.choice(CT_TEXT_OK))
    if label in (4, 5, 6):
        return B(rbytes(rng, rng.choice([1, 1, 2, 8, 23, 24])))
    if label == 7:
        if depth <= 0:
            return A(B(b''), M(), B(b''))
        if rng.random() < 0.6:
            return gen_signature_item(rng, depth - 1)
        return ('a', [gen_signature_item(rng, depth - 1) for _ in range(rng.choice([1, 2, 3]))])
    raise ValueError(label)

def gen_std_fault(rng, label):
    r = rng.random()
    if label == 1 and r < 0.5: return I(rng.choice(ALG_BAD))
    if label == 2 and r < 0.6:
        return rng.choice([A(), A(I(rng.choice(HP_BAD))), A(I(1), B(b'x')), A(I(1), I(2**63)), A(A())])
    if label == 3 and r < 0.7:
        return T(rng.choice(CT_TEXT_BAD)) if rng.random() < 0.7 else I(rng.choice(CF_BAD))
    if label in (4, 5, 6) and r < 0.5: return B(b'')
    if label == 7 and r < 0.7:
        return rng.choice([A(), A(I(1)), A(B(b''), M()), A(B(b''), M(), B(b''), B(b'')), A(A()), A(A(B(b''), M(), I(1))),
                           A(B(b'\x01'), M(), B(b'')), A(B(b''), M((I(4), B(b''))), B(b'')),
                           A(A(B(b''), M(), B(b'')), B(b'')), A(A(B(b''), M(), B(b'')), A(B(b''), M())),
                           A(T(''), M(), B(b''))])
    return rng.choice(WRONG_KINDS)

def gen_header_entries(rng, depth=2, faults=0, allow_both_iv=False):
    """list of (key value, value) pairs for a header map"""
    std = [l for l in (1, 2, 3, 4, 5, 6, 7) if rng.random() < 0.35]
    if not allow_both_iv and 5 in std and 6 in std:
        std.remove(rng.choice([5, 6]))
    entries = [(I(l), gen_std_value(rng, l, depth)) for l in std]
    used = set(std)
    for _ in range(rng.choice([0, 0, 1, 1, 2, 3])):
        k = gen_label(rng)
        key = (k[0], k[1])
        if key in used or (k[0] == 'i' and k[1] in (1, 2, 3, 4, 5, 6, 7)):
            continue
        used.add(key)
        entries.append((k, gen_value(rng, 2)))
    rng.shuffle(entries)
    for _ in range(faults):
        kind = rng.random()
        if kind < 0.55 and entries:
            i = rng.randrange(len(entries))
            k = entries[i][0]
            if k[0] == 'i' and 1 <= k[1] <= 7:
                entries[i] = (k, gen_std_fault(rng, k[1]))
            else:
                l = rng.choice([1, 2, 3, 4, 5, 6, 7])
                if ('i', l) not in [e[0] for e in entries]:
                    entries.insert(rng.randrange(len(entries) + 1), (I(l), gen_std_fault(rng, l)))
        elif kind < 0.7:
            # bad key kind / out of range key
            entries.insert(rng.randrange(len(entries) + 1),
                           (rng.choice([B(b'k'), NULL, A(), ('f', 0x3ff0000000000000), I(2**63), I(-2**63 - 1), TRUE, G(1, I(1))]),
                            gen_scalar(rng)))
        elif kind < 0.85:
            # both IVs
            present = [e[0] for e in entries]
            for l in (5, 6):
                if ('i', l) not in present:
                    entries.insert(rng.randrange(len(entries) + 1), (I(l), B(rbytes(rng, 2))))
        else:
            l = rng.choice([1, 2, 3, 4, 5, 6, 7])
            if ('i', l) not in [e[0] for e in entries]:
                entries.insert(rng.randrange(len(entries) + 1), (I(l), gen_std_fault(rng, l)))
    return entries

def gen_header_map(rng, depth=2, faults=0):
    return ('m', gen_header_entries(rng, depth, faults))

def gen_protected_bytes(rng, depth=2, faults=0, noncanon=True):
    r = rng.random()
    if r < 0.25: return b''
    if r < 0.3: return b'\xa0'
    m = gen_header_map(rng, depth, faults)
    return enc(m, rng if noncanon else None)

def inject_dup(rng, entries):
    """duplicate one key (same label, possibly other value / encoding) at a random other position"""
    if not entries:
        entries = [(I(rng.choice(OTHER_HDR_LABELS)), I(1))]
    i = rng.randrange(len(entries))
    k, v = entries[i]
    v2 = v if rng.random() < 0.5 else gen_scalar(rng)
    j = rng.randrange(len(entries) + 1)
    out = list(entries)
    out.insert(j, (k, v2))
    return out, (min(i, j), max(i + 1 if j <= i else i, j))

# ---------------------------------------------------------------- messages
def gen_payload(rng):
    r = rng.random()
    if r < 0.7: return B(rbytes(rng))
    return NULL

def gen_recipient_item(rng, depth):
    items = [B(gen_protected_bytes(rng, 1)), gen_header_map(rng, 1), gen_payload(rng)]
    if depth > 0 and rng.random() < 0.4:
        items.append(('a', [gen_recipient_item(rng, depth - 1) for _ in range(rng.choice([0, 1, 2]))]))
    elif rng.random() < 0.1:
        items.append(A())
    return ('a', items)

def gen_msg_items(rng, ty, depth=2):
    p = B(gen_protected_bytes(rng, depth))
    u = gen_header_map(rng, depth)
    if ty in ('CoseSign1', 'CoseMac0'):
        return [p, u, gen_payload(rng), B(rbytes(rng))]
    if ty == 'CoseSign':
        return [p, u, gen_payload(rng), ('a', [gen_signature_item(rng, 1) for _ in range(rng.choice([0, 1, 2, 3]))])]
    if ty == 'CoseSignature':
        return [p, u, B(rbytes(rng))]
    if ty == 'CoseMac':
        return [p, u, gen_payload(rng), B(rbytes(rng)), ('a', [gen_recipient_item(rng, depth) for _ in range(rng.choice([0, 1, 2]))])]
    if ty == 'CoseEncrypt':
        return [p, u, gen_payload(rng), ('a', [gen_recipient_item(rng, depth) for _ in range(rng.choice([0, 1, 2]))])]
    if ty == 'CoseEncrypt0':
        return [p, u, gen_payload(rng)]
    if ty == 'CoseRecipient':
        return gen_recipient_item(rng, depth)[1]
    raise ValueError(ty)

def gen_msg(rng, ty, depth=2):
    return ('a', gen_msg_items(rng, ty, depth))

def fault_msg_items(rng, items):
    items = list(items)
    r = rng.random()
    if r < 0.3 and items:
        i = rng.randrange(len(items)); items[i] = rng.choice(WRONG_KINDS)
    elif r < 0.45 and items:
        del items[rng.randrange(len(items))]
    elif r < 0.6:
        items.insert(rng.randrange(len(items) + 1), rng.choice(WRONG_KINDS))
    elif r < 0.75 and len(items) >= 2:
        i, j = rng.sample(range(len(items)), 2); items[i], items[j] = items[j], items[i]
    elif r < 0.85:
        items[0] = B(enc(gen_header_map(rng, 1, faults=1), rng))
    else:
        items[1] = gen_header_map(rng, 1, faults=1)
    return items

# ---------------------------------------------------------------- keys
def gen_key_entries(rng, faults=0, kty=True):
    entries = []
    if kty:
        entries.append((I(1), I(rng.choice(KTY_REG)) if rng.random() < 0.8 else T(rng.choice(['EC2', '', 'x']))))
    if rng.random() < 0.4: entries.append((I(2), B(rbytes(rng, rng.choice([1, 2, 8])))))
    if rng.random() < 0.4: entries.append((I(3), gen_alg(rng)))
    if rng.random() < 0.4:
        ops = rng.sample(KOP_REG, rng.choice([1, 2, 3]))
        vals = [I(o) for o in ops]
        if rng.random() < 0.3: vals.append(T(rng.choice(['sign', '', 'x'])))
        rng.shuffle(vals)
        entries.append((I(4), ('a', vals)))
    if rng.random() < 0.3: entries.append((I(5), B(rbytes(rng, rng.choice([1, 4])))))
    used = set((e[0][0], e[0][1]) for e in entries)
    for _ in range(rng.choice([0, 1, 2, 3])):
        k = rng.choice([I(rng.choice([-1, -2, -3, -4, -5, -6, 0, 6, 7, 23, 24, 256, -65537, 2**63 - 1, -2**63])),
                        T(rng.choice(TEXT_LABELS))])
        if (k[0], k[1]) in used: continue
        used.add((k[0], k[1]))
        entries.append((k, gen_value(rng, 2)))
    rng.shuffle(entries)
    for _ in range(faults):
        r = rng.random()
        present = [e[0] for e in entries]
        def put(l, v):
            idx = [i for i, e in enumerate(entries) if e[0] == ('i', l)]
            if idx: entries[idx[0]] = (I(l), v)
            else: entries.insert(rng.randrange(len(entries) + 1), (I(l), v))
        if r < 0.2:
            put(1, rng.choice([I(x) for x in KTY_BAD] + WRONG_KINDS[2:8]))
        elif r < 0.3:
            entries[:] = [e for e in entries if e[0] != ('i', 1)]
        elif r < 0.45:
            put(4, rng.choice([A(), A(I(1), I(1)), A(T('a'), T('a')), A(I(1), I(2), I(1)), A(I(rng.choice(KOP_BAD))),
                               A(B(b'')), I(1), A(I(1), T('x'), T('x'))]))
        elif r < 0.6:
            put(rng.choice([2, 5]), rng.choice([B(b''), T('k'), I(1), NULL]))
        elif r < 0.7:
            put(3, rng.choice([I(x) for x in ALG_BAD] + [B(b'a'), NULL]))
        elif r < 0.85:
            entries.insert(rng.randrange(len(entries) + 1),
                           (rng.choice([B(b'k'), NULL, A(), I(2**63), I(-2**63 - 1), TRUE]), gen_scalar(rng)))
        else:
            l = rng.choice([1, 2, 3, 4, 5]); put(l, rng.choice(WRONG_KINDS))
    return entries

# ---------------------------------------------------------------- CWT / KDF
def gen_timestamp_value(rng):
    r = rng.random()
    if r < 0.4: return I(rng.choice([0, 1, 1700000000, -1, 2**63 - 1, -2**63, 2**32]))
    if r < 0.8: return ('f', rng.choice(FLOATS))
    return I(rng.randrange(-2**63, 2**63))

def gen_claims_entries(rng, faults=0):
    entries = []
    for l in (1, 2, 3):
        if rng.random() < 0.35: entries.append((I(l), T(rng.choice(['iss', '', 'a', 'é', 'coap://x']))))
    for l in (4, 5, 6):
        if rng.random() < 0.35: entries.append((I(l), gen_timestamp_value(rng)))
    if rng.random() < 0.35: entries.append((I(7), B(rbytes(rng))))
    used = set((e[0][0], e[0][1]) for e in entries)
    for _ in range(rng.choice([0, 1, 2, 3])):
        k = rng.choice([I(rng.choice(CLAIM_REG + CLAIM_PRIV)), T(rng.choice(TEXT_LABELS))])
        if (k[0], k[1]) in used: continue
        used.add((k[0], k[1])); entries.append((k, gen_value(rng, 2)))
    rng.shuffle(entries)
    for _ in range(faults):
        r = rng.random()
        def put(l, v):
            idx = [i for i, e in enumerate(entries) if e[0] == ('i', l)]
            if idx: entries[idx[0]] = (I(l), v)
            else: entries.insert(rng.randrange(len(entries) + 1), (I(l), v))
        if r < 0.3: put(rng.choice([1, 2, 3]), rng.choice([I(1), B(b'x'), NULL, A()]))
        elif r < 0.55: put(rng.choice([4, 5, 6]), rng.choice([T('1'), B(b''), NULL, I(2**63), I(-2**63 - 1), I(2**64 - 1), TRUE]))
        elif r < 0.65: put(7, rng.choice([T('x'), I(1), NULL]))
        elif r < 0.85:
            entries.insert(rng.randrange(len(entries) + 1), (I(rng.choice(CLAIM_BAD)), gen_scalar(rng)))
        else:
            entries.insert(rng.randrange(len(entries) + 1),
                           (rng.choice([B(b'k'), NULL, A(), I(2**63), I(-2**63 - 1)]), gen_scalar(rng)))
    return entries

def gen_party_items(rng, fault=False):
    def slot(nonce=False):
        r = rng.random()
        if r < 0.4: return NULL
        if nonce and r < 0.6: return I(rng.choice([0, 1, -1, 2**63 - 1, -2**63, 255]))
        return B(rbytes(rng))
    items = [slot(), slot(True), slot()]
    if fault:
        r = rng.random()
        if r < 0.4: items[rng.randrange(3)] = rng.choice([T('x'), TRUE, A(), I(2**63), I(-2**63 - 1), ('f', 0)])
        elif r < 0.6: items[rng.choice([0, 2])] = I(1)
        elif r < 0.8: items.pop()
        else: items.append(NULL)
    return items

def gen_supp_items(rng, fault=False):
    items = [I(rng.choice([0, 128, 256, 2**32, 2**64 - 1, 2**63])), B(gen_protected_bytes(rng, 1))]
    if rng.random() < 0.5: items.append(B(rbytes(rng)))
    if fault:
        r = rng.random()
        if r < 0.3: items[0] = rng.choice([I(-1), I(-2**64), T('x'), B(b''), NULL, ('f', 0x4060000000000000)])
        elif r < 0.5: items[1] = rng.choice([M(), NULL, T(''), B(b'\x01'), B(enc(M((I(4), B(b'')))))])
        elif r < 0.65 and len(items) == 3: items[2] = rng.choice([NULL, T(''), I(0)])
        elif r < 0.8: items = items[:1]
        else: items = items + [B(b''), B(b'')]
    return items

def gen_kdf_items(rng, fault=False):
    items = [gen_alg(rng), ('a', gen_party_items(rng)), ('a', gen_party_items(rng)), ('a', gen_supp_items(rng))]
    for _ in range(rng.choice([0, 0, 1, 2])): items.append(B(rbytes(rng)))
    if fault:
        r = rng.random()
        if r < 0.2: items[0] = rng.choice([I(x) for x in ALG_BAD] + [B(b''), NULL])
        elif r < 0.4: items[rng.choice([1, 2])] = ('a', gen_party_items(rng, True))
        elif r < 0.55: items[3] = ('a', gen_supp_items(rng, True))
        elif r < 0.7: items.append(rng.choice([T('x'), NULL, I(1), A()]))
        elif r < 0.85: items = items[:rng.choice([0, 1, 2, 3])]
        else: items[rng.randrange(4)] = rng.choice(WRONG_KINDS)
    return items

# ---------------------------------------------------------------- accepted-input corpus (shared)
def corpus(rng, n, noncanon=True):
    """(type, bytes) pairs, mostly accepted by the type's decoder"""
    out = []
    e = (lambda v: enc(v, rng)) if noncanon else (lambda v: enc(v))
    for _ in range(n):
        r = rng.random()
        if r < 0.16: out.append(('Header', e(gen_header_map(rng, 2))))
        elif r < 0.2: out.append(('ProtectedHeader', e(gen_header_map(rng, 1))))
        elif r < 0.5:
            ty = rng.choice(MSG_TYPES); out.append((ty, e(gen_msg(rng, ty, 2))))
        elif r < 0.62: out.append(('CoseKey', e(('m', gen_key_entries(rng)))))
        elif r < 0.66: out.append(('CoseKeySet', e(('a', [('m', gen_key_entries(rng)) for _ in range(rng.choice([0, 1, 2, 3]))]))))
        elif r < 0.76: out.append(('ClaimsSet', e(('m', gen_claims_entries(rng)))))
        elif r < 0.81: out.append(('PartyInfo', e(('a', gen_party_items(rng)))))
        elif r < 0.86: out.append(('SuppPubInfo', e(('a', gen_supp_items(rng)))))
        elif r < 0.92: out.append(('CoseKdfContext', e(('a', gen_kdf_items(rng)))))
        elif r < 0.96: out.append(('Value', e(gen_value(rng, 3))))
        elif r < 0.98: out.append(('Label', e(gen_label(rng))))
        else: out.append((rng.choice(['RegP:Algorithm', 'Reg:KeyType', 'RegP:CwtClaimName', 'Reg:CoapContentFormat']),
                          e(I(rng.choice(ALG_REG + KTY_REG + CLAIM_REG + CF_REG)))))
    return out

def mutate(rng, b):
    b = bytearray(b)
    if not b: return bytes([rng.randrange(256)])
    r = rng.random()
    if r < 0.4:
        i = rng.randrange(len(b)); b[i] ^= 1 << rng.randrange(8)
    elif r < 0.55:
        del b[rng.randrange(len(b))]
    elif r < 0.7:
        b.insert(rng.randrange(len(b) + 1), rng.randrange(256))
    elif r < 0.85:
        i = rng.randrange(len(b)); b[i] = rng.choice([0x00, 0x17, 0x18, 0x1f, 0x40, 0x5f, 0x7f, 0x80, 0x9f, 0xa0, 0xbf, 0xc2, 0xc3, 0xf6, 0xf7, 0xff, 0xf9, 0xfb])
    else:
        i = rng.randrange(len(b)); j = rng.randrange(i, len(b)); del b[i:j]
    return bytes(b)

# ---------------------------------------------------------------- descriptions (in-memory values)
def d_reg(kind, x): return A(I(kind), I(x) if isinstance(x, int) else T(x))
def d_header(alg=None, crit=(), ctype=None, kid=b'', iv=b'', piv=b'', csigs=(), rest=()):
    return A(alg if alg is not None else NULL, ('a', list(crit)), ctype if ctype is not None else NULL,
             B(kid), B(iv), B(piv), ('a', list(csigs)), ('a', [A(k, v) for k, v in rest]))
D_EMPTY_HEADER = d_header()
def d_protected(orig, hdr): return A(B(orig) if orig is not None else NULL, hdr)
def d_signature(prot, unprot, sig): return A(prot, unprot, B(sig))
def d_opt_b(o): return B(o) if o is not None else NULL

def gen_rest_pairs(rng, forbidden=(), n=None):
    out = []; used = set()
    for _ in range(rng.choice([0, 0, 1, 2, 3]) if n is None else n):
        k = gen_label(rng)
        if k[0] == 'i' and k[1] in forbidden: continue
        if k[0] == 'i' and not (-2**63 <= k[1] < 2**63): continue
        if (k[0], k[1]) in used: continue
        used.add((k[0], k[1])); out.append((k, gen_value(rng, 2)))
    return out

def gen_desc_header(rng, depth=1, wf=True):
    """a well-formed in-memory header (wf=True) as a description"""
    alg = None
    if rng.random() < 0.4:
        r = rng.random()
        alg = d_reg(1, rng.choice(ALG_REG)) if r < 0.6 else d_reg(0, rng.choice(ALG_PRIV)) if r < 0.8 else d_reg(2, rng.choice(['HS', '']))
    crit = [d_reg(1, rng.choice(HP_REG)) if rng.random() < 0.8 else d_reg(2, rng.choice(TEXT_LABELS)) for _ in range(rng.choice([0, 0, 1, 2]))]
    ctype = None
    if rng.random() < 0.3:
        ctype = d_reg(1, rng.choice(CF_REG)) if rng.random() < 0.5 else d_reg(2, rng.choice(CT_TEXT_OK))
    kid = rbytes(rng, rng.choice([0, 0, 1, 4]))
    iv = rbytes(rng, rng.choice([0, 0, 2]))
    piv = b'' if iv else rbytes(rng, rng.choice([0, 0, 2]))
    csigs = []
    if depth > 0 and rng.random() < 0.3:
        csigs = [gen_desc_signature(rng, depth - 1) for _ in range(rng.choice([1, 1, 2]))]
    rest = gen_rest_pairs(rng, forbidden=(1, 2, 3, 4, 5, 6, 7))
    return d_header(alg, crit, ctype, kid, iv, piv, csigs, rest)

def gen_desc_protected(rng, depth=1):
    r = rng.random()
    if r < 0.3: return d_protected(None, D_EMPTY_HEADER)
    return d_protected(None, gen_desc_header(rng, depth))

WIRE_PROTS = None
def wire_protected(rng):
    """a protected header as obtained by DECODING: retained (mostly non-canonical) bytes plus the header they parse to"""
    global WIRE_PROTS
    if WIRE_PROTS is None:
        WIRE_PROTS = [(b"", D_EMPTY_HEADER), (b"\xa0", D_EMPTY_HEADER), (b"\xbf\xff", D_EMPTY_HEADER), (b"\xb8\x00", D_EMPTY_HEADER),
                      (b"\xbf\x01\x26\xff", d_header(alg=d_reg(1, -7))), (b"\xa1\x18\x01\x38\x06", d_header(alg=d_reg(1, -7))),
                      (b"\xa2\x04\x41\x6b\x01\x26", d_header(alg=d_reg(1, -7), kid=b"k")),
                      (b"\xa2\x18\x63\x01\x04\x5f\x41\x6b\xff", d_header(kid=b"k", rest=[(I(99), I(1))]))]
    pb, h = rng.choice(WIRE_PROTS)
    return d_protected(pb, h)

def gen_desc_signature(rng, depth=0):
    p = wire_protected(rng) if rng.random() < 0.3 else gen_desc_protected(rng, depth)
    return d_signature(p, gen_desc_header(rng, depth), rbytes(rng))

def gen_desc_recipient(rng, depth=1):
    rs = [gen_desc_recipient(rng, depth - 1) for _ in range(rng.choice([0, 0, 1, 2]))] if depth > 0 else []
    p = wire_protected(rng) if rng.random() < 0.25 else gen_desc_protected(rng, 0)
    return A(p, gen_desc_header(rng, 0), d_opt_b(rbytes(rng) if rng.random() < 0.7 else None), ('a', rs))

def gen_desc_msg(rng, ty):
    p = gen_desc_protected(rng, 1); u = gen_desc_header(rng, 1)
    pl = d_opt_b(rbytes(rng) if rng.random() < 0.7 else None)
    if ty in ('CoseSign1', 'CoseMac0'): return A(p, u, pl, B(rbytes(rng)))
    if ty == 'CoseSign': return A(p, u, pl, ('a', [gen_desc_signature(rng, 0) for _ in range(rng.choice([0, 1, 2]))]))
    if ty == 'CoseSignature': return A(p, u, B(rbytes(rng)))
    if ty == 'CoseMac': return A(p, u, pl, B(rbytes(rng)), ('a', [gen_desc_recipient(rng, 1) for _ in range(rng.choice([0, 1, 2]))]))
    if ty == 'CoseEncrypt': return A(p, u, pl, ('a', [gen_desc_recipient(rng, 1) for _ in range(rng.choice([0, 1, 2]))]))
    if ty == 'CoseEncrypt0': return A(p, u, pl)
    if ty == 'CoseRecipient': return gen_desc_recipient(rng, 1)
    raise ValueError(ty)

def gen_desc_key(rng, extra_labels=None):
    kty = d_reg(1, rng.choice(KTY_REG)) if rng.random() < 0.85 else d_reg(2, rng.choice(['EC2', 'x']))
    kid = rbytes(rng, rng.choice([0, 0, 1, 4]))
    alg = NULL
    if rng.random() < 0.4:
        alg = d_reg(1, rng.choice(ALG_REG)) if rng.random() < 0.7 else d_reg(0, rng.choice(ALG_PRIV))
    ops = [d_reg(1, o) for o in rng.sample(KOP_REG, rng.choice([0, 0, 1, 2, 3]))]
    if ops and rng.random() < 0.3: ops.append(d_reg(2, rng.choice(['a', 'sign', ''])))
    biv = rbytes(rng, rng.choice([0, 0, 2]))
    if extra_labels is None:
        params = []; used = set()
        for _ in range(rng.choice([0, 1, 2, 3, 4])):
            k = rng.choice([I(rng.choice([-1, -2, -3, -4, -6, 6, 7, 23, 24, 255, 256, 65536, -24, -25, -257, -65537, 2**63 - 1, -2**63])),
                            T(rng.choice(TEXT_LABELS))])
            if (k[0], k[1]) in used: continue
            used.add((k[0], k[1])); params.append(A(k, gen_value(rng, 1)))
    else:
        # values may be containers with entries in no particular order: nothing may touch them
        CONT = [M((I(1), I(2)), (I(-1), I(1)), (T("a"), I(0)), (I(-3), B(b"x"))), A(I(3), I(1), I(2)), M((T("b"), I(1)), (T("a"), I(2))),
                M((I(24), A(M((I(2), I(0)), (I(1), I(0)))))), ('g', 24, B(b"\xa2\x02\x00\x01\x00"))]
        params = [A(k, rng.choice(CONT) if rng.random() < 0.35 else gen_scalar(rng)) for k in extra_labels]
    return A(kty, B(kid), alg, ('a', ops), B(biv), ('a', params))

def gen_desc_timestamp(rng):
    if rng.random() < 0.5: return A(I(0), I(rng.choice([0, 1, -1, 1700000000, 2**63 - 1, -2**63])))
    return A(I(1), ('f', rng.choice(FLOATS)))

def gen_desc_claims(rng):
    o = lambda f: f() if rng.random() < 0.35 else NULL
    rest = []; used = set()
    for _ in range(rng.choice([0, 1, 2, 3])):
        r = rng.random()
        k = d_reg(1, rng.choice(CLAIM_REG)) if r < 0.4 else d_reg(0, rng.choice(CLAIM_PRIV)) if r < 0.6 else d_reg(2, rng.choice(TEXT_LABELS))
        key = enc(k)
        if key in used: continue
        used.add(key); rest.append(A(k, gen_value(rng, 2)))
    return A(o(lambda: T(rng.choice(['iss', '', 'a']))), o(lambda: T('sub')), o(lambda: T('aud')),
             o(lambda: gen_desc_timestamp(rng)), o(lambda: gen_desc_timestamp(rng)), o(lambda: gen_desc_timestamp(rng)),
             o(lambda: B(rbytes(rng))), ('a', rest))

def gen_desc_party(rng):
    def s(nonce=False):
        r = rng.random()
        if r < 0.4: return NULL
        if nonce and r < 0.6: return I(rng.choice([0, 1, -1, 2**63 - 1, -2**63]))
        return B(rbytes(rng))
    return A(s(), s(True), s())

def gen_desc_supp(rng):
    p = wire_protected(rng) if rng.random() < 0.3 else gen_desc_protected(rng, 0)
    return A(I(rng.choice([0, 128, 2**32, 2**64 - 1])), p, d_opt_b(rbytes(rng) if rng.random() < 0.5 else None))

def gen_desc_kdf(rng):
    return A(d_reg(1, rng.choice(ALG_REG)), gen_desc_party(rng), gen_desc_party(rng), gen_desc_supp(rng),
             ('a', [B(rbytes(rng)) for _ in range(rng.choice([0, 0, 1, 2]))]))

DESC_GEN = {
    'Header': lambda rng: gen_desc_header(rng, 1),
    'ProtectedHeader': lambda rng: gen_desc_protected(rng, 1),
    'CoseKey': lambda rng: gen_desc_key(rng),
    'CoseKeySet': lambda rng: ('a', [gen_desc_key(rng) for _ in range(rng.choice([0, 1, 2]))]),
    'ClaimsSet': gen_desc_claims,
    'PartyInfo': gen_desc_party,
    'SuppPubInfo': gen_desc_supp,
    'CoseKdfContext': gen_desc_kdf,
    'Label': lambda rng: rng.choice([I(rng.choice([x for x in LATTICE if -2**63 <= x < 2**63])), T(rng.choice(TEXT_LABELS))]),
}
for _t in MSG_TYPES:
    DESC_GEN[_t] = (lambda t: (lambda rng: gen_desc_msg(rng, t)))(_t)

def _no_raw(f):
    def g(*a, **k):
        old = RAW_NAN[0]; RAW_NAN[0] = False
        try: return f(*a, **k)
        finally: RAW_NAN[0] = old
    return g
for _n in ("gen_desc_header", "gen_desc_protected", "gen_desc_signature", "gen_desc_recipient", "gen_desc_msg", "gen_desc_key",
           "gen_desc_claims", "gen_desc_party", "gen_desc_supp", "gen_desc_kdf", "gen_rest_pairs"):
    globals()[_n] = _no_raw(globals()[_n])
for _k in list(DESC_GEN):
    DESC_GEN[_k] = _no_raw(DESC_GEN[_k])
