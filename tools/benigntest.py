#!/usr/bin/env python3
"""tools/benigntest.py <benign/X.diff> <props...>: apply a property-PRESERVING change to /repo, make
sure the crate still builds and its tests pass, run the given checks (expect exit 0, no VIOLATION),
undo the change.  Used to measure false alarms.  Never commits anything in /repo."""
import sys, os, subprocess
ROOT = os.path.normpath(os.path.join(os.path.dirname(os.path.abspath(__file__)), ".."))
diff = os.path.abspath(sys.argv[1]); props = sys.argv[2:]
st = subprocess.run(["git", "-C", "/repo", "status", "--porcelain", "--untracked-files=no"], capture_output=True, text=True).stdout.strip()
if st: sys.exit("refusing: /repo has local modifications:\n" + st)
r = subprocess.run(["git", "-C", "/repo", "apply", diff], capture_output=True, text=True)
if r.returncode != 0: sys.exit("patch does not apply: " + r.stderr)
bad = 0
try:
    t = subprocess.run("cargo test --offline --lib --quiet 2>&1 | grep 'test result' | head -1", shell=True, cwd="/repo", capture_output=True, text=True,
                       env=dict(os.environ, CARGO_NET_OFFLINE="true"))
    print("suite:", t.stdout.strip() or "DOES NOT BUILD")
    for p in props:
        pr = subprocess.run([os.path.join(ROOT, "check"), p] + os.environ.get("VERIF_BENIGN_ARGS", "").split(), cwd=ROOT, capture_output=True, text=True, env=dict(os.environ, VERIF_NO_EVIDENCE="1"))
        viol = [l for l in pr.stdout.split("\n") if l.startswith("VIOLATION")]
        notes = [l for l in pr.stdout.split("\n") if l.startswith("note:") or l.startswith("  broken:")]
        print(p, "exit", pr.returncode, viol[:1], notes[:3])
        if pr.returncode != 0 or viol: bad += 1
finally:
    subprocess.run(["git", "-C", "/repo", "checkout", "--", "."])
print("FALSE ALARMS:", bad)
sys.exit(1 if bad else 0)
