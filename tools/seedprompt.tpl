You are given a property of the Rust crate google/coset (typed COSE / RFC 8152 structures over CBOR) and your own scratch git worktree of the repository at @WT@. Work ONLY inside @WT@ and @OUT@ (read nothing under /verif, and do not touch /repo itself).

The property (read it carefully; the full text is also in @OUT@/property.txt):

@PROPERTY@

Your task: produce ONE realistic change to the crate's source (the kind of slip or well-meant refactor a maintainer could plausibly make and a reviewer could miss) that BREAKS this property while the crate still compiles and its existing test suite still passes, i.e. `cd @WT@ && cargo test --offline` reports all 117 unit tests + 1 doctest passing. The change should need something specific to manifest — an unusual input, a particular encoding, a boundary value, a specific position or order of entries, a multi-step sequence of builder calls, or two cooperating sites that each look fine alone — not something ordinary use would expose at once. Keep the change small (a few lines). Do not change tests, Cargo.toml, or anything outside src/.

Then write a demonstration: a Rust integration test file @OUT@/demo.rs (to be placed at @WT@/tests/demo.rs; it may use only the crate's public API, `coset::cbor` (ciborium) and std) containing one or more #[test] functions that FAIL with your change applied and PASS on the unchanged source. Verify both: run `cargo test --offline --test demo` with the change (must fail) and without the change (must pass), then re-apply the change.

Deliver in @OUT@:
  - patch.diff   : output of `git -C @WT@ diff -- src` (the change only, not the demo)
  - demo.rs      : the demonstration test file
  - meta.json    : {"property": "@P@", "summary": "<one paragraph: what was changed>", "needs": "<what specific input / sequence is needed for it to manifest>", "ran": ["<commands you ran and their outcome>"]}
Finally leave @WT@ with the change applied and tests/demo.rs present. Report in your final message: the diff, why it breaks the property, and the exact evidence that the existing suite passes and the demo fails/passes as required. If after honest effort you cannot find a change that keeps all existing tests green, say so and deliver the closest one, stating which existing test fails.

Additional constraints: (1) other engineers already produced changes based on these ideas: @IDEAS@ — do NOT reuse those ideas or close variants; find a different mechanism, preferably in a different function or module, still breaking THIS property; prefer subtle faults: wrong only for a narrow class of inputs (a particular COMBINATION of two features, e.g. one specific field together with one specific carrier type, nesting position, encoding or API entry point), so that neither random inputs nor one-feature-at-a-time sweeps are likely to hit it. (2) Do NOT use `git stash` (the stash is shared between worktrees): to test without your change use `git diff -- src > @OUT@/your.diff; git apply -R @OUT@/your.diff; ...; git apply @OUT@/your.diff` inside your own worktree. (3) Set CARGO_NET_OFFLINE=true; there is no network.
