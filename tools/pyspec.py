"""Independent (Python) statement of what the wire form of an in-memory value must be:
RFC 8152 structures over RFC 8949 deterministic CBOR.  Used as a direct oracle on the
implementation's outputs (never derived from the Coq model or from /repo)."""
from cbor import *

H_ALG, H_CRIT, H_CT, H_KID, H_IV, H_PIV, H_CSIG = 1, 2, 3, 4, 5, 6, 7

def lab(d):
    """regp/reg description [kind, x] -> wire value"""
    return d[1][1]

def header_map(d):
    """header description -> CBOR map value the encoder must emit"""
    alg, crit, ct, kid, iv, piv, csigs, rest = d[1]
    m = []
    if alg != NULL: m.append((I(H_ALG), lab(alg)))
    if crit[1]: m.append((I(H_CRIT), ('a', [lab(c) for c in crit[1]])))
    if ct != NULL: m.append((I(H_CT), lab(ct)))
    if kid[1]: m.append((I(H_KID), kid))
    if iv[1]: m.append((I(H_IV), iv))
    if piv[1]: m.append((I(H_PIV), piv))
    if len(csigs[1]) == 1: m.append((I(H_CSIG), signature_arr(csigs[1][0])))
    elif len(csigs[1]) > 1: m.append((I(H_CSIG), ('a', [signature_arr(s) for s in csigs[1]])))
    for p in rest[1]:
        m.append((p[1][0], p[1][1]))
    return ('m', m)

def header_empty(d):
    alg, crit, ct, kid, iv, piv, csigs, rest = d[1]
    return alg == NULL and not crit[1] and ct == NULL and not kid[1] and not iv[1] and not piv[1] \
        and not csigs[1] and not rest[1]

def protected_bytes(d):
    """protected description -> the exact bytes inside the bstr"""
    orig, hdr = d[1]
    if orig != NULL: return orig[1]
    if header_empty(hdr): return b''
    return enc(header_map(hdr))

def signature_arr(d):
    p, u, sg = d[1]
    return A(B(protected_bytes(p)), header_map(u), sg)

def recipient_arr(d):
    p, u, ct, rs = d[1]
    items = [B(protected_bytes(p)), header_map(u), ct]
    if rs[1]: items.append(('a', [recipient_arr(r) for r in rs[1]]))
    return ('a', items)

def msg_value(ty, d):
    x = d[1]
    if ty in ('CoseSign1', 'CoseMac0'):
        return A(B(protected_bytes(x[0])), header_map(x[1]), x[2], x[3])
    if ty == 'CoseSign':
        return A(B(protected_bytes(x[0])), header_map(x[1]), x[2], ('a', [signature_arr(s) for s in x[3][1]]))
    if ty == 'CoseSignature': return signature_arr(d)
    if ty == 'CoseMac':
        return A(B(protected_bytes(x[0])), header_map(x[1]), x[2], x[3], ('a', [recipient_arr(r) for r in x[4][1]]))
    if ty == 'CoseEncrypt':
        return A(B(protected_bytes(x[0])), header_map(x[1]), x[2], ('a', [recipient_arr(r) for r in x[3][1]]))
    if ty == 'CoseEncrypt0':
        return A(B(protected_bytes(x[0])), header_map(x[1]), x[2])
    if ty == 'CoseRecipient': return recipient_arr(d)
    raise ValueError(ty)

def label_sort_key(v):
    return enc(v)

def key_map(d):
    kty, kid, alg, ops, biv, params = d[1]
    m = [(I(1), lab(kty))]
    if kid[1]: m.append((I(2), kid))
    if alg != NULL: m.append((I(3), lab(alg)))
    if ops[1]:
        # a set: emitted in the order of the deterministic encoding of the operations
        vals = sorted([lab(o) for o in ops[1]], key=label_sort_key)
        m.append((I(4), ('a', vals)))
    if biv[1]: m.append((I(5), biv))
    for p in params[1]:
        m.append((p[1][0], p[1][1]))
    return ('m', m)

def timestamp_value(d):
    return d[1][1]

def claims_map(d):
    iss, sub, aud, exp, nbf, iat, cti, rest = d[1]
    m = []
    for k, v in ((1, iss), (2, sub), (3, aud)):
        if v != NULL: m.append((I(k), v))
    for k, v in ((4, exp), (5, nbf), (6, iat)):
        if v != NULL: m.append((I(k), timestamp_value(v)))
    if cti != NULL: m.append((I(7), cti))
    for p in rest[1]:
        m.append((lab(p[1][0]), p[1][1]))
    return ('m', m)

def party_arr(d): return d
def supp_arr(d):
    l, p, o = d[1]
    items = [l, B(protected_bytes(p))]
    if o != NULL: items.append(o)
    return ('a', items)
def kdf_arr(d):
    a, u, v, s, pr = d[1]
    return ('a', [lab(a), party_arr(u), party_arr(v), supp_arr(s)] + pr[1])

def wire_value(ty, d):
    if ty == 'Header': return header_map(d)
    if ty == 'ProtectedHeader': return header_map(d[1][1])
    if ty in ('CoseSign1', 'CoseSign', 'CoseSignature', 'CoseMac', 'CoseMac0', 'CoseEncrypt', 'CoseEncrypt0', 'CoseRecipient'):
        return msg_value(ty, d)
    if ty == 'CoseKey': return key_map(d)
    if ty == 'CoseKeySet': return ('a', [key_map(k) for k in d[1]])
    if ty == 'ClaimsSet': return claims_map(d)
    if ty == 'PartyInfo': return party_arr(d)
    if ty == 'SuppPubInfo': return supp_arr(d)
    if ty == 'CoseKdfContext': return kdf_arr(d)
    if ty == 'Label': return d
    raise ValueError(ty)

# protected headers get the bytes encoding assigned them
def assign_protected(d):
    orig, hdr = d[1]
    return A(B(protected_bytes(d)), assign_header(hdr))
def assign_header(d):
    alg, crit, ct, kid, iv, piv, csigs, rest = d[1]
    return A(alg, crit, ct, kid, iv, piv, ('a', [assign_signature(s) for s in csigs[1]]), rest)
def assign_signature(d):
    p, u, sg = d[1]
    return A(assign_protected(p), assign_header(u), sg)
def assign_recipient(d):
    p, u, ct, rs = d[1]
    return A(assign_protected(p), assign_header(u), ct, ('a', [assign_recipient(r) for r in rs[1]]))
def assign(ty, d):
    x = d[1]
    if ty == 'Header': return assign_header(d)
    if ty == 'ProtectedHeader': return A(NULL, assign_header(x[1]))   # from_cbor_value keeps no bytes
    if ty in ('CoseSign1', 'CoseMac0'): return A(assign_protected(x[0]), assign_header(x[1]), x[2], x[3])
    if ty == 'CoseSign': return A(assign_protected(x[0]), assign_header(x[1]), x[2], ('a', [assign_signature(s) for s in x[3][1]]))
    if ty == 'CoseSignature': return assign_signature(d)
    if ty == 'CoseMac': return A(assign_protected(x[0]), assign_header(x[1]), x[2], x[3], ('a', [assign_recipient(r) for r in x[4][1]]))
    if ty == 'CoseEncrypt': return A(assign_protected(x[0]), assign_header(x[1]), x[2], ('a', [assign_recipient(r) for r in x[3][1]]))
    if ty == 'CoseEncrypt0': return A(assign_protected(x[0]), assign_header(x[1]), x[2])
    if ty == 'CoseRecipient': return assign_recipient(d)
    if ty == 'SuppPubInfo': return A(x[0], assign_protected(x[1]), x[2])
    if ty == 'CoseKey':
        kty, kid, alg, ops, biv, params = x
        return A(kty, kid, alg, ('a', sorted(ops[1], key=lambda o: enc(lab(o)))), biv, params)
    if ty == 'CoseKeySet': return ('a', [assign('CoseKey', k) for k in x])
    return d

# RFC 8152 4.4 / 6.3 / 5.3
SIG_CTX = {'CoseSignature': 'Signature', 'CoseSign1': 'Signature1', 'CounterSignature': 'CounterSignature'}
MAC_CTX = {'CoseMac': 'MAC', 'CoseMac0': 'MAC0'}
ENC_CTX = {'CoseEncrypt': 'Encrypt', 'CoseEncrypt0': 'Encrypt0', 'EncRecipient': 'Enc_Recipient',
           'MacRecipient': 'Mac_Recipient', 'RecRecipient': 'Rec_Recipient'}

def sig_structure(ctx, body, sign, aad, payload):
    items = [T(SIG_CTX[ctx]), B(body)]
    if sign is not None: items.append(B(sign))
    items += [B(aad), B(payload)]
    return enc(('a', items))
def mac_structure(ctx, prot, aad, payload):
    return enc(A(T(MAC_CTX[ctx]), B(prot), B(aad), B(payload)))
def enc_structure(ctx, prot, aad):
    return enc(A(T(ENC_CTX[ctx]), B(prot), B(aad)))

def show(v):
    """the observation format (matches Desc.show_value / desc.rs show_value)"""
    k = v[0]
    if k == 'raw': return show(dec_all(v[1]))
    def hexint(n): return ('-0x%x' % -n) if n < 0 else ('0x%x' % n)
    if k == 'i': return 'i' + hexint(v[1])
    if k == 'b': return 'h' + v[1].hex()
    if k == 't': return 't' + v[1].hex()
    if k == 'f':
        bits = v[1]
        if bits == 'NaN' or (((bits >> 52) & 0x7ff) == 0x7ff and (bits & ((1 << 52) - 1)) != 0): return 'fNaN'
        return 'f0x%x' % bits
    if k == 'T': return 'T'
    if k == 'F': return 'F'
    if k == 'N': return 'N'
    if k == 'g': return 'g0x%x(%s)' % (v[1], show(v[2]))
    if k == 'a': return '[' + ','.join(show(x) for x in v[1]) + ']'
    if k == 'm': return '{' + ','.join(show(a) + ':' + show(b) for a, b in v[1]) + '}'
    raise ValueError(v)
