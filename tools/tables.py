"""The registry tables as regenerated from /repo/src by tools/translate.py (coq/gen/Generated.v), for the
Python side: palettes and expectations must speak about the registries the crate HAS, not about a frozen
copy (removing or adding an entry is not a property violation; whether the tables are right is C17's
business: inclusion in the frozen IANA reference, one-to-one, private ranges - all proved over the
regenerated tables)."""
import os, re
_G = os.path.join(os.path.dirname(os.path.abspath(__file__)), "..", "coq", "gen", "Generated.v")

def _load():
    try:
        s = open(_G).read()
    except OSError:
        return {}, {}
    regs = {}
    for m in re.finditer(r"Definition (\w+)_table : list \(string \* Z\) :=\s*\[(.*?)\]\.", s, re.S):
        vals = {}
        for e in re.finditer(r'\("([^"]*)",\s*\(?(-?\d+)\)?\)', m.group(2)):
            vals[int(e.group(2))] = e.group(1)
        regs[m.group(1)] = vals
    priv = {}
    m = re.search(r"Definition private_ranges[^\[]*\[(.*?)\]\.", s, re.S)
    if m:
        for e in re.finditer(r'\("(\w+)",\s*\("([<>=!]+)",\s*\(?(-?\d+)\)?\)\)', m.group(1)):
            priv[e.group(1)] = (e.group(2), int(e.group(3)))
    return regs, priv

REG, PRIV = _load()

def registered(reg, v):
    return reg not in REG or v in REG[reg]        # unknown registry: assume as before

def private(reg, v):
    if reg not in PRIV: return False
    op, b = PRIV[reg]
    return {"<": v < b, "<=": v <= b, ">": v > b, ">=": v >= b, "==": v == b, "!=": v != b}[op]

def acceptable(reg, v, with_private=False):
    return registered(reg, v) or (with_private and private(reg, v))
