#!/usr/bin/env python3
"""tools/seedtest.py <seed-id> [props...]: apply seeded/<seed-id>/patch.diff to /repo, run the
checks (default: the property named in meta.json), undo the change.  Prints which checks raise
a VIOLATION.  Never commits anything in /repo."""
import sys, os, json, subprocess
ROOT = os.path.normpath(os.path.join(os.path.dirname(os.path.abspath(__file__)), ".."))
sid = sys.argv[1]
d = os.path.join(ROOT, "seeded", sid)
meta = json.load(open(os.path.join(d, "meta.json")))
props = sys.argv[2:] or [meta["property"]]
st = subprocess.run(["git", "-C", "/repo", "status", "--porcelain", "--untracked-files=no"], capture_output=True, text=True).stdout.strip()
if st:
    sys.exit("refusing: /repo has local modifications:\n" + st)
r = subprocess.run(["git", "-C", "/repo", "apply", os.path.join(d, "patch.diff")], capture_output=True, text=True)
if r.returncode != 0:
    sys.exit("patch does not apply: " + r.stderr)
res = {}
try:
    for p in props:
        pr = subprocess.run([os.path.join(ROOT, "check"), p], cwd=ROOT, capture_output=True, text=True, env=dict(os.environ, VERIF_NO_EVIDENCE="1"))
        viol = [l for l in pr.stdout.split("\n") if l.startswith("VIOLATION")]
        res[p] = {"exit": pr.returncode, "violation": viol[:1]}
        print(p, "exit", pr.returncode, viol[:1])
        if viol:
            path = viol[0].split("replay=")[1].split()[0]
            try:
                rp = json.load(open(os.path.join(ROOT, path)))
                print("   replay:", json.dumps({k: rp.get(k) for k in ("kind", "case", "implementation", "why", "broken")})[:600])
                os.remove(os.path.join(ROOT, path))
            except Exception as e:
                print("   (replay unreadable)", e)
finally:
    subprocess.run(["git", "-C", "/repo", "checkout", "--", "."])
json.dump(res, open(os.path.join(d, "last_result.json"), "w"), indent=1)
