#!/bin/sh
# tools/seedconfirm.sh <prop> <name>: confirm a sub-agent's seeded change in its scratch worktree
# (existing suite green with the change; demo fails with it and passes without), then store it
# under seeded/<name>/ and run our checks against it.
set -e
P=$1; NAME=$2; WT=/tmp/wt-$P; OUT=/tmp/seed-out/$P
cd $WT
git stash clear || true
git checkout -q -- src
git apply $OUT/patch.diff
git diff -- src > /tmp/seed-out/$P/patch.confirm.diff
test -s /tmp/seed-out/$P/patch.confirm.diff
mkdir -p tests; cp $OUT/demo.rs tests/demo.rs
echo "== suite with change"; CARGO_NET_OFFLINE=true cargo test --offline --lib --quiet 2>&1 | grep "test result" | head -2
echo "== demo with change (must fail)"; if CARGO_NET_OFFLINE=true cargo test --offline --test demo --quiet 2>&1 | grep -q "test result: FAILED"; then echo "demo FAILS with change: ok"; else echo "!! demo does not fail with change"; fi
git stash push -q -- src
echo "== demo without change (must pass)"; CARGO_NET_OFFLINE=true cargo test --offline --test demo --quiet 2>&1 | grep "test result" | head -1
git stash pop -q
mkdir -p /verif/seeded/$NAME
cp /tmp/seed-out/$P/patch.confirm.diff /verif/seeded/$NAME/patch.diff
cp $OUT/demo.rs /verif/seeded/$NAME/demo.rs
cp $OUT/meta.json /verif/seeded/$NAME/meta.json
cd /verif && python3 tools/seedtest.py $NAME
