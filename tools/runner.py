"""Build steps and execution of case files on the implementation (Rust harness) and the model
(extracted OCaml driver), sharded over the available cores."""
import os, subprocess, hashlib, time, sys, re
from concurrent.futures import ThreadPoolExecutor

ROOT = os.path.normpath(os.path.join(os.path.dirname(os.path.abspath(__file__)), ".."))
REPO = os.environ.get("COSET_REPO", "/repo")
COQ = os.path.join(ROOT, "coq")
WORK = os.path.join(ROOT, "work")
HARNESS = os.path.join(ROOT, "harness", "target", "release", "coset-verif-harness")
HARNESS_DEBUG = os.path.join(ROOT, "harness", "target", "debug", "coset-verif-harness")
DRIVER = os.path.join(ROOT, "ocaml", "driver")
NCPU = min(16, os.cpu_count() or 4)
ENV = dict(os.environ, CARGO_NET_OFFLINE="true")

def sh(cmd, cwd=None, timeout=1800, env=None):
    p = subprocess.run(cmd, cwd=cwd, shell=isinstance(cmd, str), stdout=subprocess.PIPE, stderr=subprocess.STDOUT,
                       timeout=timeout, env=env or ENV)
    return p.returncode, p.stdout.decode(errors="replace")

def translate():
    """regenerate Generated.v from /repo/src; returns (ok, message)"""
    rc, out = sh([sys.executable, os.path.join(ROOT, "tools", "translate.py")])
    return rc == 0, out.strip()

def coq_make(targets, timeout=2400):
    if not os.path.exists(os.path.join(COQ, "Makefile")):
        rc, out = sh("coq_makefile -f _CoqProject -o Makefile", cwd=COQ)
        if rc != 0:
            return False, out
    rc, out = sh(["make", "-j%d" % NCPU] + targets, cwd=COQ, timeout=timeout)
    return rc == 0, out

def model_hash():
    h = hashlib.sha256()
    for d in ("Model", "gen"):
        for f in sorted(os.listdir(os.path.join(COQ, d))):
            if f.endswith(".v"):
                h.update(open(os.path.join(COQ, d, f), "rb").read())
    for f in ("coq/Extract.v", "ocaml/driver.ml", "ocaml/build.sh"):
        h.update(open(os.path.join(ROOT, f), "rb").read())
    return h.hexdigest()

def build_driver():
    """extraction + ocamlopt, cached on the model sources"""
    stamp = os.path.join(ROOT, "ocaml", "extracted", ".stamp")
    hv = model_hash()
    if os.path.exists(DRIVER) and os.path.exists(stamp) and open(stamp).read() == hv:
        return True, "driver up to date"
    ok, out = coq_make(["Model/Dispatch.vo"])
    if not ok:
        return False, out
    rc, out = sh(["sh", os.path.join(ROOT, "ocaml", "build.sh")], timeout=900)
    if rc != 0:
        return False, out
    open(stamp, "w").write(hv)
    return True, "driver rebuilt"

LASTGOOD = os.path.join(ROOT, "tools", "Generated.lastgood.v")
REFDRIVER = os.path.join(WORK, "refmodel", "ocaml", "driver")

def generated_changed():
    """True when the tables / constants regenerated from /repo differ from the committed last-good copy"""
    try:
        return open(os.path.join(COQ, "gen", "Generated.v")).read() != open(LASTGOOD).read()
    except OSError:
        return True

def build_reference_driver():
    """model built from the last-good Generated.v: the oracle to search for a concrete failing input
    when the source's declarative data changed (so that the regenerated model just follows the source)"""
    import shutil
    ref = os.path.join(WORK, "refmodel")
    shutil.rmtree(ref, ignore_errors=True)
    os.makedirs(os.path.join(ref, "coq"), exist_ok=True)
    for d in ("Model", "gen"):
        shutil.copytree(os.path.join(COQ, d), os.path.join(ref, "coq", d), ignore=shutil.ignore_patterns("*.vo*", "*.glob", ".*.aux"))
    shutil.copy(LASTGOOD, os.path.join(ref, "coq", "gen", "Generated.v"))
    shutil.copy(os.path.join(COQ, "Extract.v"), os.path.join(ref, "coq", "Extract.v"))
    files = ["gen/Generated.v"] + ["Model/%s.v" % m for m in
             ("Prelude", "Cbor", "Iana", "Label", "Msg", "Key", "Cwt", "Context", "Api", "Builders", "Desc", "Dispatch")]
    open(os.path.join(ref, "coq", "_CoqProject"), "w").write("-Q . Coset\n" + "\n".join(files) + "\n")
    rc, out = sh("coq_makefile -f _CoqProject -o Makefile && make -j%d" % NCPU, cwd=os.path.join(ref, "coq"), timeout=1200)
    if rc != 0:
        return False, out
    os.makedirs(os.path.join(ref, "ocaml"), exist_ok=True)
    for f in ("driver.ml", "build.sh"):
        shutil.copy(os.path.join(ROOT, "ocaml", f), os.path.join(ref, "ocaml", f))
    rc, out = sh(["sh", os.path.join(ref, "ocaml", "build.sh")], timeout=900)
    return rc == 0, out

def build_harness(debug=False):
    """cargo rebuilds the harness (and coset, path dependency) from /repo's working tree"""
    lock = os.path.join(ROOT, "harness", "Cargo.lock")
    if not os.path.exists(lock):
        import shutil; shutil.copy(os.path.join(REPO, "Cargo.lock"), lock)
    cmd = ["cargo", "build", "--offline"] + ([] if debug else ["--release"])
    rc, out = sh(cmd, cwd=os.path.join(ROOT, "harness"), timeout=1200)
    return rc == 0, out

HARNESS_STD = os.path.join(ROOT, "harness", "target-std", "release", "coset-verif-harness")
def build_harness_std():
    """the same harness with coset's `std` cargo feature on (C01 quantifies over both configurations)"""
    env = dict(ENV, CARGO_TARGET_DIR=os.path.join(ROOT, "harness", "target-std"))
    rc, out = sh(["cargo", "build", "--offline", "--release", "--features", "coset/std"], cwd=os.path.join(ROOT, "harness"), timeout=1200, env=env)
    return rc == 0, out

def _run_shard(binary, lines, env, per_case_timeout):
    """feed lines; if the process dies, record `crash` for the case it died on and restart"""
    out = []
    i = 0
    while i < len(lines):
        chunk = lines[i:]
        data = ("\n".join(chunk) + "\n").encode()
        try:
            p = subprocess.run([binary], input=data, stdout=subprocess.PIPE, stderr=subprocess.PIPE, env=env,
                               timeout=max(60, per_case_timeout * len(chunk)))
            got = p.stdout.decode(errors="replace").split("\n")
            if got and got[-1] == "": got.pop()
            rc = p.returncode
        except subprocess.TimeoutExpired as e:
            got = (e.stdout or b"").decode(errors="replace").split("\n")
            if got and got[-1] == "": got.pop()
            rc = "timeout"
        if len(got) >= len(chunk):
            out.extend(got[:len(chunk)]); break
        # died / hung on case number len(got) of this chunk
        out.extend(got)
        out.append("hang" if rc == "timeout" else "crash:%s" % rc)
        i += len(got) + 1
    return out

def run_cases(binary, lines, env=None, per_case_timeout=0.05, shards=None):
    if not lines:
        return []
    shards = shards or NCPU
    n = len(lines)
    k = max(1, min(shards, (n + 199) // 200))
    size = (n + k - 1) // k
    parts = [lines[i:i + size] for i in range(0, n, size)]
    e = dict(os.environ)
    if env: e.update(env)
    with ThreadPoolExecutor(max_workers=len(parts)) as ex:
        res = list(ex.map(lambda part: _run_shard(binary, part, e, per_case_timeout), parts))
    out = []
    for r in res: out.extend(r)
    return out

def run_impl(lines, threaded=False, debug=False, std=False, **kw):
    env = {"HARNESS_THREAD": "1"} if threaded else {}
    return run_cases(HARNESS_STD if std else HARNESS_DEBUG if debug else HARNESS, lines, env=env, **kw)

def run_model(lines, reference=False, **kw):
    return run_cases(REFDRIVER if reference else DRIVER, lines, per_case_timeout=0.5, **kw)

ERR_RE = re.compile(r"err:\w+")
def norm_err(s):
    return ERR_RE.sub("err", s)
